"""E2 - RNG-outcome explorer: stateless, deviation-bounded DFS over scripted `random` answers.

The stdlib `random` module object referenced by d42/generation/_random.py is replaced (from
outside, through sys.modules - the package attribute of the same name is a Random *instance*)
by a Scripted object.  Every randint/uniform/choice call is a choice point with a finite answer
menu (default answer first).  An execution replays a prefix of recorded answers and takes the
default afterwards; alternatives are branched while the number of non-default answers <= D.
uuid4 / datetime / date inside the generator module are replaced by fixed-answer stand-ins.
"""
import datetime as _dt
import sys
import uuid

import d42.generation  # noqa: F401  (makes sure the sub-modules are loaded)

R_MOD = sys.modules["d42.generation._random"]
G_MOD = sys.modules["d42.generation._generator"]

FIX_UUID = uuid.UUID("9f1c1b6e-2c2f-4c8b-9b8e-1d2a3b4c5d6e")
FIX_NOW = _dt.datetime(2021, 6, 7, 8, 9, 10)
FIX_TODAY = _dt.date(2021, 6, 7)


class HarnessError(Exception):
    pass


class _ClockMeta(type):
    """The stand-ins only pin the clock: for isinstance / issubclass they ARE the real classes
    (library code that asks `isinstance(value, datetime)` must get the production answer)."""

    def __instancecheck__(cls, obj):
        return isinstance(obj, cls.__mro__[1])

    def __subclasscheck__(cls, sub):
        return issubclass(sub, cls.__mro__[1])


class _FixedDateTime(_dt.datetime, metaclass=_ClockMeta):
    @classmethod
    def utcnow(cls):
        return FIX_NOW

    @classmethod
    def now(cls, tz=None):
        return FIX_NOW


class _FixedDate(_dt.date, metaclass=_ClockMeta):
    @classmethod
    def today(cls):
        return FIX_TODAY


def _mix(*xs):
    h = 1469598103934665603
    for x in xs:
        for b in repr(x).encode():
            h = ((h ^ b) * 1099511628211) & 0xFFFFFFFFFFFFFFFF
    return h


class Scripted:
    """Stand-in for the `random` module: answers come from a script, defaults afterwards."""

    def __init__(self, seed=0, full_choice=False, record_callers=False):
        self.seed_value = seed
        self.full_choice = full_choice    # C09 atom pass: every index of every choice()
        self.record_callers = record_callers   # C17: name the d42 function behind each draw
        self.prefix = []
        self.trace = []                   # (choice, menu_size)
        self.sites = []                   # (kind, args summary) per choice point

    def begin(self, prefix):
        self.prefix = list(prefix)
        self.trace = []
        self.sites = []

    def _pick(self, menu, site):
        i = len(self.trace)
        if i < len(self.prefix):
            c, m = self.prefix[i]
            if m != len(menu):
                raise HarnessError(f"divergence while replaying a prefix at point {i}: menu size "
                                   f"{len(menu)} != recorded {m} ({site})")
        else:
            c = 0
        self.trace.append((c, len(menu)))
        if self.record_callers:
            f = sys._getframe(2)
            while f is not None and f.f_code.co_filename.endswith(("e2.py", "_random.py")):
                f = f.f_back
            who = "?" if f is None else f"{f.f_code.co_filename.rsplit('/', 1)[-1]}:{f.f_code.co_name}"
            site = site + (who,)
        self.sites.append(site)
        return menu[c]

    # -- the random-module surface d42 uses
    def seed(self, s=None):
        return None

    def randint(self, a, b):
        if a > b:
            raise ValueError(f"empty range in randrange({a}, {b + 1})")
        menu = []
        for x in (a, b, a + 1, b - 1, (a + b) // 2, a + _mix(self.seed_value, a, b) % (b - a + 1)):
            if a <= x <= b and x not in menu:
                menu.append(x)
        return self._pick(menu, ("randint", a, b))

    def uniform(self, a, b):
        # exactly what random.uniform computes, a + (b - a) * random(), for random() at its two
        # extremes (0.0 and 1 - 2**-53), the middle and one seeded interior point - so that a span
        # that overflows, or an end point overshot by rounding, shows as it would in production
        menu = []
        us = (0.0, 1.0 - 2.0 ** -53, 0.5, (_mix(self.seed_value, a, b) % (2 ** 53)) / 2.0 ** 53)
        for u in us:
            x = a + (b - a) * u
            if not any(x == y or (x != x and y != y) for y in menu):
                menu.append(x)
        return self._pick(menu, ("uniform", a, b))

    def random(self):
        # not used by d42 today; a rewrite of Random on top of random() meets the extremes, the
        # middle, two non-dyadic interior points and one seeded point
        menu = [0.0, 0.5, 1.0 - 2.0 ** -53, 0.1, 0.7, 2.0 ** -53]
        x = (_mix(self.seed_value, "random") % (2 ** 53)) / 2.0 ** 53
        if x not in menu:
            menu.append(x)
        return self._pick(menu, ("random",))

    def randrange(self, start, stop=None, step=1):
        if stop is None:
            start, stop = 0, start
        n = len(range(start, stop, step))
        if n <= 0:
            raise ValueError(f"empty range for randrange({start}, {stop}, {step})")
        return start + step * (self.randint(0, n - 1))

    def getrandbits(self, k):
        return self.randint(0, (1 << k) - 1) if k > 0 else 0

    def randbytes(self, n):
        return self.getrandbits(n * 8).to_bytes(n, "little")

    def sample(self, population, k):
        pool = list(population)
        if k > len(pool):
            raise ValueError("Sample larger than population or is negative")
        out = []
        for _ in range(k):
            out.append(pool.pop(self.randint(0, len(pool) - 1)))
        return out

    def choices(self, population, weights=None, *, cum_weights=None, k=1):
        return [self.choice(list(population)) for _ in range(k)]

    def choice(self, seq):
        n = len(seq)
        if n == 0:
            raise IndexError("Cannot choose from an empty sequence")
        if n <= 4 or self.full_choice:
            idx = list(range(n))
        else:
            idx = []
            for x in (0, n - 1, n // 2, _mix(self.seed_value, n) % n):
                if x not in idx:
                    idx.append(x)
        return seq[self._pick(idx, ("choice", n, _summ(seq)))]

    def shuffle(self, x):
        if self._pick([0, 1], ("shuffle", len(x))) == 1:
            x.reverse()


def _summ(seq):
    if isinstance(seq, str):
        return seq if len(seq) <= 100 else seq[:100]
    return len(seq)


class installed:
    """Context manager: puts a Scripted RNG and the fixed clock/uuid stand-ins in place."""

    def __init__(self, rng):
        self.rng = rng

    def __enter__(self):
        self.saved = (R_MOD.random, G_MOD.uuid4, G_MOD.datetime, G_MOD.date)
        R_MOD.random = self.rng
        G_MOD.uuid4 = lambda: FIX_UUID
        G_MOD.datetime = _FixedDateTime
        G_MOD.date = _FixedDate
        return self.rng

    def __exit__(self, *a):
        R_MOD.random, G_MOD.uuid4, G_MOD.datetime, G_MOD.date = self.saved
        return False


def run_once(rng, fn, prefix):
    rng.begin(prefix)
    try:
        return ("ok", fn())
    except HarnessError:
        raise
    except Exception as e:  # noqa: BLE001
        return ("exc", type(e).__name__, str(e)[:200])


def explore(rng, fn, D, full_cap=0, max_execs=None):
    """Yields (script, sites, outcome) for every execution.  Returns via StopIteration value a
    dict: executions, exhaustive (whole tree enumerated), max_points, bound.

    First tries to enumerate the whole choice tree if it has <= full_cap leaves; otherwise falls
    back to the deviation bound D.  `rng` must already be installed.
    """
    info = {"executions": 0, "exhaustive": False, "max_points": 0, "bound": D, "capped": False}

    def dfs(bound, cap):
        # stack entries are (parent trace, position, alternative, deviations): the prefix is only
        # materialised when the entry is popped, so pushing alternatives costs O(1) each
        stack = [(None, 0, 0, 0)]
        n = 0
        while stack:
            ptr, pos, alt, dev = stack.pop()
            prefix = () if ptr is None else tuple(ptr[:pos]) + ((alt, ptr[pos][1]),)
            out = run_once(rng, fn, prefix)
            tr = list(rng.trace)
            sites = list(rng.sites)
            n += 1
            yield tr, sites, out
            info["max_points"] = max(info["max_points"], len(tr))
            if bound is not None and dev + 1 > bound:
                continue
            for i in range(len(tr) - 1, len(prefix) - 1, -1):
                for a in range(tr[i][1] - 1, 0, -1):
                    stack.append((tr, i, a, dev + 1))
            # every stack entry is a distinct future execution: the tree has >= n + len(stack) leaves
            if cap and n + len(stack) > cap:
                yield None
                return

    if full_cap:
        buf = []
        too_big = False
        for item in dfs(None, full_cap):
            if item is None:
                too_big = True
                break
            buf.append(item)
        if not too_big:
            info["exhaustive"] = True
            info["executions"] = len(buf)
            info["bound"] = None
            yield from buf
            return info
    n = 0
    for item in dfs(D, None):
        n += 1
        yield item
        if max_execs and n >= max_execs:
            info["capped"] = True
            break
    info["executions"] = n
    return info


def explore_all(rng, fn, D, full_cap=0, max_execs=None):
    """List-returning convenience wrapper: ([(script, sites, outcome)...], info)."""
    gen = explore(rng, fn, D, full_cap, max_execs)
    items = []
    while True:
        try:
            items.append(next(gen))
        except StopIteration as s:
            return items, s.value


def self_test(rng):
    """The seam is really in place: a probe fake() consumes scripted answers, twice the same."""
    from d42 import fake, schema
    probe = schema.list(schema.str.len(1, 3)).len(1, 2)
    a = run_once(rng, lambda: fake(probe), ())
    t1 = list(rng.trace)
    b = run_once(rng, lambda: fake(probe), ())
    if not t1:
        raise HarnessError("RNG seam not installed: probe fake() consumed no scripted answers")
    if a != b or t1 != list(rng.trace):
        raise HarnessError("replaying the same script gave different observations")
