"""Runner: accumulators, fork-once worker pool, evidence, replay files, known findings."""
import collections
import hashlib
import importlib
import json
import multiprocessing
import os
import re
import sys
import time
import traceback

from . import env

NPROC = int(os.environ.get("VERIF_NPROC", "16"))
# where evidence/ and replays/ are written; the detection audit redirects it to a scratch dir
OUT = os.environ.get("VERIF_OUT", env.VERIF)
MAX_VIOLATION_LINES = 12


class EnoughFound(BaseException):
    """A shard that has recorded violations and has used up its time budget stops exploring (code
    under test that is broken can also be pathologically slow); what it found is kept."""

    def __init__(self, acc):
        super().__init__("enough found")   # BaseException: passes the checks' own `except Exception`
        self.acc = acc


# seconds after which a shard that HAS recorded violations stops (never reached on a tree where
# the property holds: no violations, or the few-second shards that meet a known finding)
SHARD_BUDGET = {"quick": 240.0, "thorough": 3600.0}
_BUDGET = [None]


class Acc:
    """Per-shard accumulator (picklable)."""

    def __init__(self):
        self._t0 = time.monotonic()
        self.n = collections.Counter()
        self.viol = {}          # sig -> {"sig","case","count"}
        self.samples = []
        self.outcomes = set()
        self.caps = collections.Counter()
        self.notes = []

    def count(self, name, k=1):
        self.n[name] += k

    def cap(self, name, k=1):
        self.caps[name] += k

    def sample(self, obj, limit=4):
        if len(self.samples) < limit:
            self.samples.append(obj)

    def outcome(self, key):
        if len(self.outcomes) < 400_000:
            self.outcomes.add(hash(key) if not isinstance(key, int) else key)

    def violation(self, sig, case, rank=0):
        """Records a violation; per signature the first case is kept, plus up to 8 alternative
        cases of lowest rank (tried in order when the first one does not replay standalone)."""
        v = self.viol.get(sig)
        if v is None:
            self.viol[sig] = {"sig": sig, "case": case, "count": 1, "alts": [(rank, case)]}
        else:
            v["count"] += 1
            alts = v["alts"]
            if len(alts) < 8 or rank < alts[-1][0]:
                alts.append((rank, case))
                alts.sort(key=lambda x: x[0])
                del alts[8:]
        if _BUDGET[0] is not None and time.monotonic() - self._t0 > _BUDGET[0]:
            self.caps["shard_stopped_after_violations_and_time_budget"] += 1
            raise EnoughFound(self)

    def merge(self, other):
        self.n.update(other.n)
        self.caps.update(other.caps)
        for s in other.samples:
            self.sample(s, limit=6)
        self.outcomes |= other.outcomes
        for sig, v in other.viol.items():
            mine = self.viol.get(sig)
            if mine is None:
                self.viol[sig] = dict(v)
                self.viol[sig]["alts"] = list(v.get("alts", []))
            else:
                mine["count"] += v["count"]
                # contexts in which the signature was seen (fresh-interpreter shards first: their
                # replay re-creates the process exactly)
                cs = mine.get("ctxs", []) + [c for c in v.get("ctxs", []) if c not in mine.get("ctxs", [])]
                cs.sort(key=lambda c: 0 if c.get("fresh") else 1)
                mine["ctxs"] = cs[:6]
                mine["alts"] = sorted(mine.get("alts", []) + list(v.get("alts", [])),
                                      key=lambda x: x[0])[:8]
        self.notes += other.notes
        return self


def _call(args):
    fn_mod, fn_name, shard, nshards, tier, seed, extra = args[:7]
    warm = bool(args[7]) if len(args) > 7 else False
    try:
        from . import terms
        terms.set_warm(warm)
        fn = getattr(importlib.import_module(fn_mod), fn_name)
        _BUDGET[0] = SHARD_BUDGET.get(tier)
        acc = fn(shard, nshards, tier, seed, *extra)
    except EnoughFound as e:
        acc = e.acc
    except Exception:  # noqa: BLE001
        acc = Acc()
        acc.notes.append("WORKER-CRASH " + traceback.format_exc())
    finally:
        try:
            terms.set_warm(False)
        except Exception:  # noqa: BLE001
            pass
    ctx = {"fn_mod": fn_mod, "fn_name": fn_name, "shard": shard, "nshards": nshards, "tier": tier,
           "seed": seed, "extra": list(extra), "warm": warm}
    for v in acc.viol.values():
        v["ctxs"] = [ctx]
        if warm:
            for c in [v["case"]] + [c for _, c in v.get("alts", [])]:
                if isinstance(c, dict):
                    c["warm"] = True
    if warm:
        # the warm pass repeats the same cases: its counters are reported separately so that
        # states / transitions in the evidence count each case once
        acc.n = collections.Counter({"warm:" + k: c for k, c in acc.n.items()})
        acc.n["warm:shards"] += 1
    return acc


def parallel(fn, tier, seed, nshards=None, extra=(), warm_pass=False):
    """Runs fn(shard, nshards, tier, seed, *extra) -> Acc for every shard; merges the results.
    With warm_pass every shard is run a second time with the warm builder switched on (every
    intermediate schema object is exercised - repr, ==, validate, fake - before it is refined,
    combined or substituted into; see terms.set_warm)."""
    nshards = nshards or NPROC * 4
    order = list(range(nshards))
    rot = seed % nshards
    order = order[rot:] + order[:rot]          # the seed only rotates hand-out order
    args = [(fn.__module__, fn.__name__, s, nshards, tier, seed, tuple(extra), False) for s in order]
    if warm_pass:
        args += [a[:7] + (True,) for a in args]
    total = Acc()
    if NPROC <= 1:
        for a in args:
            total.merge(_call(a))
        return total
    ctx = multiprocessing.get_context("fork")
    # one task per forked child: the history a case can depend on is exactly "the earlier cases
    # of its shard", which context_replay can re-create in a fresh interpreter
    with ctx.Pool(NPROC, maxtasksperchild=1) as pool:
        for acc in pool.imap_unordered(_call, args):
            total.merge(acc)
    return total


_FRESH_CODE = ("import sys, json, pickle, base64; from mc import runner; ctx = json.loads(sys.stdin.read()); "
               "a = runner._call((ctx['fn_mod'], ctx['fn_name'], ctx['shard'], ctx['nshards'], ctx['tier'], "
               "ctx['seed'], tuple(ctx['extra']), ctx['warm'])); "
               "print('@@RESULT@@' + base64.b64encode(pickle.dumps(a)).decode())")


def _no_aslr_prefix():
    """`setarch -R` switches address-space randomisation off for the child, so that a fresh
    interpreter started twice with the same arguments and environment allocates every object at
    the same address both times (object ids and their reuse pattern are then reproducible)."""
    import platform
    import shutil
    import subprocess
    exe = shutil.which("setarch")
    if not exe:
        return []
    pre = [exe, platform.machine(), "-R"]
    try:
        ok = subprocess.run(pre + ["true"], capture_output=True, timeout=20).returncode == 0
    except Exception:  # noqa: BLE001
        ok = False
    return pre if ok else []


_NO_ASLR = _no_aslr_prefix()


def fresh_call(ctx, timeout=3600):
    """Runs one shard in a brand-new interpreter (always bootstrapped the same way, so that even
    memory-address reuse patterns repeat) and returns its Acc, or a string on failure."""
    import base64
    import pickle
    import subprocess
    ctx = {k: ctx[k] for k in ("fn_mod", "fn_name", "shard", "nshards", "tier", "seed", "extra", "warm")}
    fresh = True
    p = subprocess.run(_NO_ASLR + [sys.executable, "-W", "ignore", "-c", _FRESH_CODE],
                       input=json.dumps(ctx, sort_keys=True),
                       capture_output=True, text=True, cwd=env.VERIF, timeout=timeout)
    if p.returncode != 0 or "@@RESULT@@" not in p.stdout:
        return "fresh interpreter failed: " + (p.stderr or p.stdout)[-600:]
    acc = pickle.loads(base64.b64decode(p.stdout.split("@@RESULT@@")[-1]))
    for v in acc.viol.values():
        for c in v.get("ctxs", []):
            c["fresh"] = fresh
    return acc


def parallel_fresh(fn, tier, seed, nshards=None, extra=()):
    """Like parallel(), but every shard runs in its own brand-new interpreter instead of a forked
    pool worker: used by passes whose findings may depend on the allocation history of the
    process (address reuse), so that context_replay re-creates exactly the same process."""
    from multiprocessing.pool import ThreadPool
    nshards = nshards or NPROC
    ctxs = [{"fn_mod": fn.__module__, "fn_name": fn.__name__, "shard": s, "nshards": nshards,
             "tier": tier, "seed": seed, "extra": list(extra), "warm": False} for s in range(nshards)]
    total = Acc()
    with ThreadPool(NPROC) as tp:
        for acc in tp.imap_unordered(fresh_call, ctxs):
            if isinstance(acc, str):
                a = Acc()
                a.notes.append("WORKER-CRASH " + acc)
                acc = a
            total.merge(acc)
    return total


def context_replay(ctx, sig, timeout=1800):
    """Re-runs one shard of a check in a brand-new interpreter and reports whether the violation
    signature shows up again.  This is the replay of last resort for violations that depend on
    what the same process executed earlier (hidden state): the history is 'the cases of shard s,
    in order', which is deterministic."""
    a = fresh_call(ctx, timeout)
    if isinstance(a, str):
        return a
    return sig if sig in a.viol else []


def replay_in_fresh_interpreter(module_name, case, timeout=900):
    """Runs `module._replay_inner(case)` in a brand-new interpreter and returns its JSON result.
    Used by checks that hunt hidden process state, where an in-process replay would inherit
    whatever earlier executions left behind."""
    import subprocess
    code = ("import sys, json; import mc; import importlib; "
            f"m = importlib.import_module({module_name!r}); "
            "print('@@RESULT@@' + json.dumps(m._replay_inner(json.loads(sys.stdin.read()))))")
    p = subprocess.run([sys.executable, "-W", "ignore", "-c", code], input=json.dumps(case),
                       capture_output=True, text=True, cwd=env.VERIF, timeout=timeout)
    if p.returncode != 0 or "@@RESULT@@" not in p.stdout:
        return "replay subprocess failed: " + (p.stderr or p.stdout)[-400:]
    return json.loads(p.stdout.split("@@RESULT@@")[-1])


def load_known():
    path = os.path.join(env.VERIF, "known_findings.json")
    if not os.path.exists(path):
        return {"findings": [], "fixed": []}
    with open(path) as f:
        return json.load(f)


def match_known(prop, sig, known):
    for f in known.get("findings", []):
        if f.get("property") != prop:
            continue
        if f.get("signature") == sig:
            return f
        pref = f.get("signature_prefix")
        if pref and sig.startswith(pref):
            return f
        rx = f.get("signature_regex")
        if rx and re.fullmatch(rx, sig):
            return f
    return None


def write_replay(prop, v):
    d = os.path.join(OUT, "replays", prop)
    os.makedirs(d, exist_ok=True)
    digest = hashlib.sha1(v["sig"].encode()).hexdigest()[:12]
    path = os.path.join(d, digest + ".json")
    with open(path, "w") as f:
        json.dump({"property": prop, "signature": v["sig"], "occurrences": v["count"],
                   "case": v["case"]}, f, indent=1, sort_keys=True)
    return path


def _reproduced(res, sig):
    if res is True or res == sig:
        return True
    return isinstance(res, (list, tuple, set)) and sig in res


def _replay_case(module, cand):
    from . import terms
    if isinstance(cand, dict) and cand.get("mode") == "shard-context":
        return context_replay(cand["ctx"], cand.get("sig") or "")
    try:
        terms.set_warm(bool(isinstance(cand, dict) and cand.get("warm")))
        return module.replay(cand)
    except Exception:  # noqa: BLE001
        return "replay crashed: " + traceback.format_exc(limit=3)
    finally:
        terms.set_warm(False)


def finish(prop, tier, seed, t0, acc, coverage, assumptions, module=None):
    """Writes evidence, prints VIOLATION / KNOWN-FINDING lines, returns the exit code."""
    known = load_known()
    crashes = [n for n in acc.notes if n.startswith("WORKER-CRASH")]
    new, old = [], {}
    for sig in sorted(acc.viol):
        v = acc.viol[sig]
        k = match_known(prop, sig, known)
        if k is None:
            new.append(v)
        else:
            old.setdefault(k["id"], [k, 0])
            old[k["id"]][1] += v["count"]
    for kid, (k, cnt) in sorted(old.items()):
        print(f"KNOWN-FINDING: property={prop} {k['what']} [{kid}; {cnt} occurrence(s) in this run]")
    harness_error = False
    shown = 0
    for v in new:
        if module is not None and hasattr(module, "replay") and shown < MAX_VIOLATION_LINES:
            again = None
            ok = False
            for _, cand in (v.get("alts") or [(0, v["case"])]):
                again = _replay_case(module, cand)
                if _reproduced(again, v["sig"]):
                    v["case"] = cand
                    ok = True
                    break
            for cx in ([] if ok else v.get("ctxs", [])):
                # depends on what the worker executed before it: replay the worker's history
                again = context_replay(cx, v["sig"])
                if _reproduced(again, v["sig"]):
                    v["case"] = {"mode": "shard-context", "ctx": cx, "last_case": v["case"],
                                 "note": "reproduces only after the earlier cases of this shard "
                                         "(hidden state); replay re-runs the shard in a fresh "
                                         "interpreter"}
                    ok = True
                    break
            if not ok:
                print(f"HARNESS-ERROR property={prop} violation did not reproduce on replay: "
                      f"{v['sig']} -> {again}")
                harness_error = True
                continue
        path = write_replay(prop, v)
        if shown < MAX_VIOLATION_LINES:
            print(f"VIOLATION property={prop} replay={path}")
            print(f"  signature: {v['sig']}  ({v['count']} occurrence(s))")
            shown += 1
    if len(new) > shown:
        print(f"  ... and {len(new) - shown} further distinct violation signature(s), "
              f"replays written under {os.path.join(OUT, 'replays', prop)}")
    for c in crashes[:3]:
        print(c)
    cov = dict(coverage)
    cov.setdefault("samples", acc.samples[:6] or ["<none>"])
    cov["caps_hit"] = dict(acc.caps)
    cov["distinct_outcomes"] = len(acc.outcomes)
    cov["counters"] = {k: c for k, c in acc.n.items() if not k.startswith("warm:")}
    wc = {k[5:]: c for k, c in acc.n.items() if k.startswith("warm:")}
    if wc:
        cov["warm_pass"] = {"what": "every case repeated on schema objects whose every intermediate "
                                    "was first exercised through repr, ==, validate and fake "
                                    "(state cached by those operations is carried into what is "
                                    "derived next); counted separately from states/transitions",
                            "counters": wc}
    cov["known_findings_seen"] = {kid: cnt for kid, (_, cnt) in old.items()}
    cov["new_violation_signatures"] = [v["sig"] for v in new][:50]
    evidence = {
        "property_id": prop, "tier": tier, "seed": seed, "level": "model_checking",
        "coverage": cov, "assumptions": assumptions,
        "wall_s": round(time.time() - t0, 3), "violations": len(new),
        "repo": env.REPO,
    }
    os.makedirs(os.path.join(OUT, "evidence"), exist_ok=True)
    with open(os.path.join(OUT, "evidence", prop + ".json"), "w") as f:
        json.dump(evidence, f, indent=1, sort_keys=True, default=str)
    print(f"{prop} tier={tier} seed={seed} states={cov.get('states')} "
          f"transitions={cov.get('transitions')} traces={cov.get('traces_validated_against_impl')} "
          f"outcomes={len(acc.outcomes)} caps={dict(acc.caps)} known={len(old)} new={len(new)} "
          f"wall={evidence['wall_s']}s")
    if (crashes or harness_error) and not shown:
        print(f"HARNESS-ERROR property={prop}: worker crash or non-reproducible violation")
        return 3
    if crashes:
        # reproduced violations were printed above: they stand on their own replays; the crashed
        # shards are reported, not hidden (a divergence of the scripted RNG, for one, means the
        # code under test answered differently to the same script - itself a sign of hidden state)
        print(f"NOTE property={prop}: {len(crashes)} shard(s) crashed in addition to the violations above")
    return 1 if new else 0


def main(argv=None):
    argv = list(sys.argv[1:] if argv is None else argv)
    if not argv:
        print("usage: check <Cxx> [--tier quick|thorough] [--replay FILE]")
        return 2
    prop = argv[0]
    tier = os.environ.get("VERIF_TIER", "quick")
    replay = None
    i = 1
    while i < len(argv):
        if argv[i] == "--tier":
            tier = argv[i + 1]
            i += 2
        elif argv[i] == "--replay":
            replay = argv[i + 1]
            i += 2
        else:
            print("unknown argument", argv[i])
            return 2
    if tier not in ("quick", "thorough"):
        tier = "quick"
    seed = int(os.environ.get("VERIF_SEED", "0") or 0)
    module = importlib.import_module("mc.checks." + prop.lower())
    if replay:
        with open(replay) as f:
            data = json.load(f)
        case = data["case"]
        if isinstance(case, dict) and case.get("mode") == "shard-context":
            case = dict(case, sig=data.get("signature"))
        res = _replay_case(module, case)
        if _reproduced(res, data.get("signature")):
            print(f"VIOLATION property={prop} replay={replay}")
            print(f"  reproduced: {data.get('signature')}")
            return 1
        print(f"replay did not reproduce the violation (now: {res})")
        return 0
    t0 = time.time()
    acc, coverage, assumptions = module.run(tier, seed)
    return finish(prop, tier, seed, t0, acc, coverage, assumptions, module)


if __name__ == "__main__":
    sys.exit(main())
