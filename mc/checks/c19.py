"""C19 - v1-to-v2 migration rewrites imports and nothing else.

Part A: every target of the mapping is importable.  Part B: every module of up to N statements
from a grammar of import forms and other statements x joiner (newline / `; `) x final newline x
LF/CRLF, plus one module per mapped name (with and without alias).  The oracle works on ASTs.
"""
import ast
import copy
import importlib
import itertools

from d42.migration.migrate_v1_to_v2 import mapping, rewrite_imports

from ..common import safe_repr
from ..runner import Acc, parallel, parallel_fresh

SIMPLE = [
    ("imp1", "from district42 import schema"),
    ("alias", "from district42 import schema as s"),
    ("multi", "from district42 import schema, optional"),
    ("mixed", "from district42 import schema, foo"),
    ("paren", "from district42 import (schema,\n    optional)"),
    ("bslash", "from district42 import schema, \\\n    optional as o"),
    ("star", "from district42 import *"),
    ("rel", "from .district42 import schema"),
    ("rel2", "from . import district42"),
    ("errors", "from district42.errors import DeclarationError as DE"),
    ("unmapped_name", "from district42.types import foo"),
    ("unmapped_mod", "from os import path"),
    ("plain_imp_v1", "import district42"),
    ("plain_imp", "import os"),
    ("assign", "x = 1"),
    ("multiline_expr", "y = (1,\n     2)"),
    ("docstring", '"""doc"""'),
    ("trailing_comment", "from district42 import schema  # trailing"),
    ("comment", "# comment"),
    ("three_mods", "from valera import validate, foo as f, eq"),
    ("two_new_mods", "from district42 import schema, GenericSchema, from_native"),
    ("string_with_import", 'z = """\nfrom district42 import schema\n"""'),
    ("call", "print(x if False else 1)"),
    ("revolt", "from revolt.errors import SubstitutionError"),
    ("unicode", 'u = "\u00e9\u4e2d"'),
    # characters that str.splitlines() treats as line boundaries but Python's tokenizer does not
    ("formfeed", "x2 = 1\x0c"),
    ("ls_in_string", 's = "a\u2028b"'),
    ("nel_fs_in_string", 's2 = "\x85\x1c"'),
]
COMPOUND = [
    ("def", "def f():\n    return 1"),
    ("if_import", "if True:\n    from district42 import schema"),
    ("try_import", "try:\n    from district42 import schema\nexcept ImportError:\n    schema = None"),
    ("def_import", "def g():\n    from valera import validate\n    return validate"),
    ("class", "class A:\n    from district42 import optional\n    x = 1"),
]
NSTMT = {"quick": 3, "thorough": 4}


MAPPING0 = copy.deepcopy(mapping)     # the table as shipped, before any rewrite has run


def check_targets():
    bad = []
    n = 0
    for old_mod, names in mapping.items():
        for name, (new_mod, new_name) in names.items():
            n += 1
            try:
                m = importlib.import_module(new_mod)
                if not hasattr(m, new_name):
                    bad.append((old_mod, name, new_mod, new_name, "attribute missing"))
            except Exception as e:  # noqa: BLE001
                bad.append((old_mod, name, new_mod, new_name, type(e).__name__))
    return n, bad


_BARE = r"""
import importlib, json, sys
bad = []
for mod, name in json.loads(sys.argv[1]):
    try:
        m = importlib.import_module(mod)
        if not hasattr(m, name):
            bad.append([mod, name, "attribute missing"])
    except BaseException as e:
        bad.append([mod, name, type(e).__name__ + ": " + str(e)[:120]])
print(json.dumps(bad))
"""


def check_targets_bare():
    """Every mapping target again in a BARE interpreter: no site-packages (-S), only the d42
    source tree and its two runtime dependencies on the path (a vendored / checked-out copy has
    no installed metadata), warnings raised as errors.  Returns (n, bad) or (0, None) when the
    child could not be set up."""
    import json
    import os
    import subprocess
    import sys
    import tempfile
    from .. import env
    targets = sorted({(nm, nn) for names in MAPPING0.values() for nm, nn in names.values()})
    d = tempfile.mkdtemp(prefix="c19bare.")
    try:
        os.symlink(os.path.join(env.REPO, "d42"), os.path.join(d, "d42"))
        for dep in ("niltype", "th"):
            src = os.path.dirname(importlib.import_module(dep).__file__)
            os.symlink(src, os.path.join(d, dep))
        e = {k: v for k, v in os.environ.items() if not k.startswith("PYTHON")}
        e.update(PYTHONPATH=d, PYTHONDONTWRITEBYTECODE="1")
        p = subprocess.run([sys.executable, "-S", "-W", "error", "-c", _BARE, json.dumps(targets)],
                           capture_output=True, text=True, timeout=300, env=e, cwd=d)
        if p.returncode != 0:
            return 0, [["<child>", "", (p.stderr or "")[-300:]]]
        return len(targets), json.loads(p.stdout)
    finally:
        import shutil
        shutil.rmtree(d, ignore_errors=True)


FILES = {
    "plain.py": "from district42 import schema\nname = 'caf\u00e9'\n".encode("utf-8"),
    "crlf.py": "from district42 import schema\r\nname = 'caf\u00e9'\r\n".encode("utf-8"),
    "bom.py": b"\xef\xbb\xbf" + "from valera import validate\nx = '\u4e2d'\n".encode("utf-8"),
    "latin1.py": "# -*- coding: latin-1 -*-\nfrom district42 import schema\nname = 'Caf\u00e9'\n".encode("latin-1"),
    "cp1251.py": "# coding: cp1251\nfrom valera import validate, eq\nword = '\u043f\u0440\u0438\u0432\u0435\u0442'\n".encode("cp1251"),
    "utf8cookie.py": "# coding: utf-8\nfrom district42 import optional\nname = '\u00e9'\n".encode("utf-8"),
    "nothing.py": "import os\nx = 1\n".encode("utf-8"),
    "sub/deep.py": "from revolt import substitute\ny = 2\n".encode("utf-8"),
    ".hidden/skip.py": "from district42 import schema\n".encode("utf-8"),
    "__pycache__/skip.py": "from district42 import schema\n".encode("utf-8"),
    "notes.txt": "from district42 import schema\n".encode("utf-8"),
}


def file_level_pass(acc):
    """migrate_v1_to_v2(directory) over files in several encodings: every file parses afterwards,
    its statements other than imports are what they were (the bytes are parsed as Python parses
    source files: BOM and coding cookie honoured), skipped places are untouched."""
    import contextlib
    import io
    import os
    import shutil
    import tempfile
    from d42.migration.migrate_v1_to_v2 import migrate_v1_to_v2

    def others(data):
        return [ast.dump(n) for n in ast.parse(data).body if not isinstance(n, (ast.ImportFrom, ast.Import))]

    d = tempfile.mkdtemp(prefix="c19files.")
    try:
        for rel, data in FILES.items():
            path = os.path.join(d, rel)
            os.makedirs(os.path.dirname(path), exist_ok=True)
            with open(path, "wb") as f:
                f.write(data)
        with contextlib.redirect_stdout(io.StringIO()):
            migrate_v1_to_v2(d)
        for rel, before in FILES.items():
            acc.count("files_migrated")
            with open(os.path.join(d, rel), "rb") as f:
                after = f.read()
            skipped = rel.startswith((".hidden", "__pycache__")) or not rel.endswith(".py")
            kind = None
            if skipped or rel == "nothing.py":
                if after != before:
                    kind = "file-that-must-be-left-alone-was-changed"
            else:
                try:
                    if others(after) != others(before):
                        kind = "statements-other-than-imports-changed"
                except (SyntaxError, ValueError, UnicodeDecodeError) as e:
                    kind = f"file-no-longer-parses:{type(e).__name__}"
                if kind is None and rel in ("plain.py", "crlf.py", "sub/deep.py", "utf8cookie.py") \
                        and b"from d42" not in after:
                    kind = "utf-8-file-with-a-mapped-import-was-not-rewritten"
            if kind:
                acc.violation(f"C19|files|{kind}|{rel}", {"file_level": True, "file": rel,
                                                          "before": repr(before)[:200], "after": repr(after)[:200]})
    finally:
        shutil.rmtree(d, ignore_errors=True)


def expected_bindings(node):
    """Multiset (sorted list) of (module, name, local name) the replacement must bind."""
    out = []
    for a in node.names:
        if node.module in MAPPING0 and a.name in MAPPING0[node.module]:
            nm, nn = MAPPING0[node.module][a.name]
            out.append((nm, nn, a.asname or a.name))
        else:
            out.append((node.module, a.name, a.asname or a.name))
    return sorted(out)


def bindings(node):
    return sorted((node.module, a.name, a.asname or a.name) for a in node.names)


def is_abs_from(n):
    return isinstance(n, ast.ImportFrom) and n.level == 0


def has_mapped(tree):
    for n in tree.body:
        if is_abs_from(n):
            for a in n.names:
                if n.module in mapping and a.name in mapping[n.module]:
                    return True
    return False


def judge(src):
    """None or a violation kind."""
    try:
        tree = ast.parse(src)
    except SyntaxError:
        return "INVALID-INPUT"
    try:
        out = rewrite_imports(src, mapping)
    except Exception as e:  # noqa: BLE001
        return f"rewriter-raises:{type(e).__name__}"
    if out is None:
        return "reports-nothing-to-do-but-mapped-import-present" if has_mapped(tree) else None
    if not isinstance(out, str):
        return "returned-non-string"
    try:
        tree2 = ast.parse(out)
    except SyntaxError:
        return "output-is-not-valid-python"
    body2 = list(tree2.body)
    j = 0
    for n in tree.body:
        if is_abs_from(n):
            want = expected_bindings(n)
            got = []
            while j < len(body2) and is_abs_from(body2[j]) and len(got) < len(want):
                got += bindings(body2[j])
                j += 1
            if sorted(got) != want:
                # local name of a mapped alias-less import is the NEW name only if it equals the old
                return "import-not-rewritten-to-expected-bindings"
        else:
            if j >= len(body2):
                return "statement-lost"
            if ast.dump(body2[j]) != ast.dump(n):
                return "statement-changed-or-lost"
            j += 1
    if j != len(body2):
        return "extra-statements-in-output"
    return None


def local_name_preserved():
    """An alias-less import must keep binding the same local name: new name == old name."""
    bad = []
    for old_mod, names in mapping.items():
        for name, (_, new_name) in names.items():
            if new_name != name:
                bad.append((old_mod, name, new_name))
    return bad


def assemble(parts, joiner, nl, trail):
    if joiner == ";":
        text = "; ".join(parts)
    else:
        text = "\n".join(parts)
    text = text.replace("\n", nl)
    return text + (nl if trail else "")


def modules(tier):
    """Yields (descriptor, source)."""
    forms = SIMPLE + COMPOUND
    nsimple = len(SIMPLE)
    for n in range(1, NSTMT[tier] + 1):
        pool = range(len(forms)) if n <= 3 else range(0, len(forms), 2)
        for combo in itertools.product(pool, repeat=n):
            parts = [forms[i][1] for i in combo]
            ids = [forms[i][0] for i in combo]
            for nl in ("\n", "\r\n"):
                for trail in (True, False):
                    yield (ids, "nl", nl, trail), assemble(parts, "nl", nl, trail)
            if n <= 2:
                # a lone carriage return is a line terminator for Python too
                yield (ids, "nl", "\r", True), assemble(parts, "nl", "\r", True)
            if n >= 2 and n <= 3 and all(i < nsimple and forms[i][0] != "comment" for i in combo):
                yield (ids, ";", "\n", True), assemble(parts, ";", "\n", True)
                if n == 2:
                    yield (ids, ";", "\n", False), assemble(parts, ";", "\n", False)
                    # statements sharing a line in a CRLF / CR file, with and without a following line
                    for nl in ("\r\n", "\r"):
                        yield (ids, ";", nl, True), assemble(parts, ";", nl, True)
                        yield (ids + ["assign"], ";", nl, True), assemble(parts, ";", nl, True) + "x = 1" + nl
    for old_mod, names in mapping.items():
        for name in names:
            yield (["mapped:" + old_mod + "." + name], "nl", "\n", True), \
                f"from {old_mod} import {name}\n"
            yield (["mapped-alias:" + old_mod + "." + name], "nl", "\n", True), \
                f"import os\nfrom {old_mod} import {name} as zz\nx = zz\n"
    yield from _modules_many_names()


def _name_lists():
    """For every v1 module: lists of 3-5 mapped names whose v2 homes alternate (A, B, A, ...) or
    repeat (A, A, B), every rotation of each, plain and with aliases / an unmapped name between."""
    out = []
    for old_mod, names in MAPPING0.items():
        by_home = {}
        for name, (home, _) in names.items():
            by_home.setdefault(home, []).append(name)
        homes = sorted(by_home, key=lambda h: (-len(by_home[h]), h))
        if len(homes) < 2 or len(by_home[homes[0]]) < 2:
            continue
        A, B = by_home[homes[0]], by_home[homes[1]]
        C = by_home[homes[2]] if len(homes) > 2 else B
        lists = [[A[0], B[0], A[1]], [A[0], A[1], B[0]], [B[0], A[0], A[1]], [A[0], B[0], A[1], B[-1]],
                 [A[0], B[0], C[-1], A[1], B[-1]]]
        for names3 in lists:
            out.append((old_mod, list(names3)))
            out.append((old_mod, [names3[0] + " as p"] + names3[1:-1] + [names3[-1] + " as q"]))
            out.append((old_mod, names3[:1] + ["zzz_unmapped"] + names3[1:]))
    return out


def _modules_many_names():
    for old_mod, names in _name_lists():
        line = f"from {old_mod} import " + ", ".join(names)
        paren = f"from {old_mod} import (\n    " + ",\n    ".join(names) + ",\n)"
        tag = "names:" + old_mod + ":" + "+".join(names)
        yield ([tag], "nl", "\n", True), line + "\n"
        yield ([tag, "assign"], "nl", "\n", False), line + "\nx = 1"
        yield ([tag + ":paren"], "nl", "\n", True), "import os\n" + paren + "\ny = 2\n"
        yield ([tag + ":crlf"], "nl", "\r\n", True), line + "\r\ny = 2\r\n"


def worker(shard, nshards, tier, seed, mode="shard"):
    acc = Acc()
    if shard == 0 and mode == "shard":
        n, bad = check_targets()
        acc.count("mapping_targets", n)
        for b in bad:
            acc.violation(f"C19|mapping-target-not-importable|{b[2]}.{b[3]}", {"target": list(b)})
        file_level_pass(acc)
        nb, badb = check_targets_bare()
        acc.count("mapping_targets_in_a_bare_interpreter", nb)
        for b in badb or []:
            acc.violation(f"C19|mapping-target-not-importable-in-a-bare-interpreter|{b[0]}.{b[1]}",
                          {"target": list(b), "bare": True})
        for b in local_name_preserved():
            acc.violation(f"C19|mapped-name-changes-local-binding|{b[0]}.{b[1]}", {"entry": list(b)})
    todo = ((i, m) for i, m in enumerate(modules(tier)) if i % nshards == shard)
    if mode == "one-process":
        # every module of at most two statements (that includes one module per mapped name) in ONE
        # process, forwards then backwards: what the rewriter keeps between calls meets a module
        # that binds the same names differently
        small = [(i, m) for i, m in enumerate(modules(tier)) if len(m[0][0]) <= 2]
        todo = small + small[::-1]
    for i, (desc, src) in todo:
        kind = judge(src)
        if kind == "INVALID-INPUT":
            acc.count("skipped_invalid_input")
            continue
        acc.count("modules")
        ids, joiner, nl, trail = desc
        if any(x.startswith(("imp", "alias", "multi", "mixed", "paren", "bslash", "errors", "three",
                             "two_new", "trailing", "mapped", "revolt")) for x in ids):
            acc.count("modules_with_mapped_import")
        acc.outcome(hash(src))
        if kind:
            shared = "shared-line" if joiner == ";" else "own-lines"
            acc.violation(f"C19|{kind}|{shared}",
                          {"source": src, "forms": ids, "joiner": joiner,
                           "crlf": nl == "\r\n", "final_newline": trail})
        if i % 20011 == 0:
            acc.sample({"forms": ids, "joiner": joiner, "source": src[:200]})
    # the mapping is shared by every call: after all these rewrites every target must still be
    # importable and bind the same local name (a rewrite must not add to or edit the table)
    if mapping != MAPPING0:
        acc.violation("C19|mapping-table-changed-by-rewrites",
                      {"after_rewrites": True, "added_or_changed": safe_repr(
                          {m: {k: v for k, v in names.items() if MAPPING0.get(m, {}).get(k) != v}
                           for m, names in mapping.items() if names != MAPPING0.get(m)}, 400)})
    n, bad = check_targets()
    acc.count("mapping_targets_rechecked_after_rewrites", n)
    for b in bad:
        acc.violation(f"C19|mapping-target-not-importable-after-rewrites|{b[2]}.{b[3]}",
                      {"target": list(b), "after_rewrites": True})
    return acc


def run(tier, seed):
    acc = parallel(worker, tier, seed)
    one = parallel_fresh(worker, tier, seed, nshards=1, extra=("one-process",))
    one.n = type(one.n)({"one_process:" + k: c for k, c in one.n.items()})
    one.outcomes = set()
    acc.merge(one)
    cov = {
        "states": acc.n["modules"],
        "transitions": acc.n["modules"],
        "traces_validated_against_impl": acc.n["modules"],
        "programs": acc.n["modules"],
        "evaluations": acc.n["modules"],
        "distinct_nontrivial": acc.n["modules_with_mapped_import"],
        "rule": f"all modules of <= {NSTMT[tier]} statements over {len(SIMPLE) + len(COMPOUND)} "
                "statement forms x newline/semicolon joiner x final newline x LF/CRLF, plus one module "
                "per mapped name (plain and aliased); non-trivial = contains a mapped top-level import",
        "exhaustive": True,
        "bounds": {"tier": tier, "max_statements": NSTMT[tier], "mapping_targets": acc.n["mapping_targets"]},
        "one_process_pass": {"modules_forwards_and_backwards": acc.n["one_process:modules"]},
    }
    return acc, cov, ["comments are not statements; their loss is not a violation",
                      "the weaker reading of 'nothing to do' is used (None only wrong if a mapped "
                      "top-level import is present)"]


def replay(case):
    if "source" in case:
        k = judge(case["source"])
        shared = "shared-line" if case.get("joiner") == ";" else "own-lines"
        return f"C19|{k}|{shared}" if k else None
    if case.get("file_level"):
        acc = Acc()
        file_level_pass(acc)
        return list(acc.viol)
    if case.get("bare"):
        return True if check_targets_bare()[1] else None
    n, bad = check_targets()
    return True if bad or local_name_preserved() else None
