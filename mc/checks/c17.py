"""C17 - seeded generation is reproducible (E4 configuration enumerator + E2 draw sites).

Every configuration is a fresh interpreter: PYTHONHASHSEED x seed k x enumeration order
(forward / reverse) x "k alone" vs "k after another seed in the same process".  Each runs every
schema sequence with the real RNG after Random().set_seed(k), twice in a row.  All digests of
one (k, sequence) must coincide across configurations.  A second pass records the arguments of
every draw under the scripted RNG and names the first draw site whose candidates depend on the
hash seed.
"""
import json
import os
import subprocess
import sys
from concurrent.futures import ThreadPoolExecutor

from .. import env
from ..c17_child import schema_terms, sequences
from ..runner import Acc
from ..terms import show

HASHSEEDS = {"quick": ["0", "1", "2", "random"], "thorough": ["0", "1", "2", "3", "4", "7", "random"]}
SEEDS = {"quick": [0, 42, "s", ""], "thorough": [0, 1, 42, "s", "", -5, 0.0, 2.5]}


def child(hashseed, seeds, tier, mode, order="fwd"):
    e = dict(os.environ)
    order, _, envspec = order.partition("@")        # "fwd@TZ=AAA-12": extra environment
    for kv in filter(None, envspec.split(",")):
        name, _, val = kv.partition("=")
        e[name] = val
    e["PYTHONHASHSEED"] = hashseed
    e["PYTHONDONTWRITEBYTECODE"] = "1"
    e["D42_REPO"] = env.REPO
    from ..runner import _NO_ASLR          # same addresses on every run: replays are exact
    p = subprocess.run(_NO_ASLR + [sys.executable, "-W", "ignore", "-m", "mc.c17_child", json.dumps(seeds), tier,
                        mode, order], cwd=env.VERIF, env=e, capture_output=True, text=True, timeout=1800)
    if p.returncode != 0:
        return {"error": p.stderr[-800:]}
    return json.loads(p.stdout)


def first_divergent_site(a, b):
    for i, (x, y) in enumerate(zip(a["sites"], b["sites"])):
        if x != y:
            kind, who = x[0], x[-1]
            same_set = sorted(x[2]) == sorted(y[2]) if len(x) > 3 and len(y) > 3 else False
            how = "same-candidates-different-order" if same_set else "different-arguments"
            return f"{who}|{kind}|{how}"
    if len(a["sites"]) != len(b["sites"]):
        return "different-number-of-draws"
    return None


def hashseed_menu(tier, seed):
    derived = str((seed * 2654435761 + 12345) % 4294967295)
    return [derived if h == "random" else h for h in HASHSEEDS[tier]]


def configurations(tier, seed):
    """(label, hashseed, seeds-run-in-that-process, order); the LAST seed of the list is judged."""
    hs = hashseed_menu(tier, seed)
    ks = SEEDS[tier]
    out = []
    for k in ks:
        for h in hs:
            out.append((f"hash={h}", h, [k], "fwd"))
        out.append(("reverse-order", hs[0], [k], "rev"))
        out.append(("further-instances-created-after-seeding", hs[0], [k], "fwd+instances"))
        if k == ks[0]:
            out.append(("temporary-schemas-generated-and-dropped-before", hs[0], [k], "fwd+churn"))
            # the process environment: two time zones half a day either side of UTC
            out.append(("decimal-context", hs[0], [k], "fwd+decimal"))
            out.append(("pure-operations-between-generations", hs[0], [k], "fwd+pure-ops"))
            out.append(("environment-TZ", hs[0], [k], "fwd@TZ=AAA-12"))
            out.append(("environment-TZ", hs[0], [k], "fwd@TZ=BBB+11"))
        other = ks[(ks.index(k) + 1) % len(ks)]
        out.append((f"after-seed-{other!r}", hs[0], [other, k], "fwd"))
    return out


def run(tier, seed):
    acc = Acc()
    terms = schema_terms()
    seqs = list(sequences(tier))
    hs = hashseed_menu(tier, seed)
    confs = configurations(tier, seed)
    jobs = [("digests", c) for c in confs] + [("sites", ("sites", h, [0], "fwd")) for h in hs]
    with ThreadPoolExecutor(max_workers=16) as ex:
        results = list(ex.map(lambda j: child(j[1][1], j[1][2], tier, j[0], j[1][3]), jobs))
    sites_ok = True
    for j, r in zip(jobs, results):
        if "error" in r and j[0] == "sites":
            # the scripted-RNG pass only names the culprit draw; if the library no longer draws
            # through the seam it rebinds, the digests (real RNG) still decide the property
            sites_ok = False
            acc.count("site_recording_failed")
        elif "error" in r:
            acc.notes.append(f"WORKER-CRASH child {j}: {r['error']}")
    if acc.notes:
        return acc, {"states": 1, "transitions": 1, "traces_validated_against_impl": 0,
                     "samples": ["child crashed"]}, []
    digest_runs = [(c, r) for (m, c), r in zip(jobs, results) if m == "digests"]
    site_runs = [r for (m, c), r in zip(jobs, results) if m == "sites"] if sites_ok else []
    # draw sites across hash seeds (names the culprit)
    site_of = {}
    for other in site_runs[1:] if site_runs else []:
        for i, (a, b) in enumerate(zip(site_runs[0]["sites"], other["sites"])):
            d = first_divergent_site(a, b)
            if d and i not in site_of:
                site_of[i] = d
    acc.count("draw_site_recordings", len(hs) * len(terms))
    baseline = {}
    for (label, h, seeds, order), r in digest_runs:
        k = seeds[-1]
        run_k = r["runs"][-1]
        acc.count("configurations")
        acc.count("sequence_runs", 2 * len(run_k["digests"]) * len(seeds))
        kk = repr(k)
        for idx in run_k["unstable"][:50]:
            seq = seqs[idx]
            acc.violation(f"C17|differs-on-repetition-in-one-process|seed={kk}",
                          {"kind": "unstable", "sequence": [show(terms[i]) for i in seq], "hashseed": h,
                           "seeds": seeds, "order": order, "tier": tier})
        if kk not in baseline:
            baseline[kk] = (label, h, seeds, order, run_k["digests"])
            for d in run_k["digests"]:
                acc.outcome((kk, d))
            continue
        bl, bh, bseeds, border, base = baseline[kk]
        diff = [i for i, (a, b) in enumerate(zip(base, run_k["digests"])) if a != b]
        if not diff:
            continue
        if label.startswith("hash="):
            single = {seqs[i][0] for i in diff if len(seqs[i]) == 1} | set(site_of)
            for i in diff:
                seq = seqs[i]
                culprits = [j for j in seq if j in single]
                if culprits:
                    if len(seq) > 1:
                        continue
                    j = culprits[0]
                    site = site_of.get(j, "no-divergent-draw-site-found")
                    acc.violation(f"C17|value-depends-on-hash-seed|{site}",
                                  {"kind": "pair", "schema": show(terms[j]), "seq_index": i,
                                   "a": [bh, bseeds, border], "b": [h, seeds, order], "tier": tier,
                                   "first_divergent_draw": site})
                else:
                    acc.violation("C17|sequence-depends-on-hash-seed-though-members-do-not",
                                  {"kind": "pair", "sequence": [show(terms[j]) for j in seq],
                                   "seq_index": i, "a": [bh, bseeds, border], "b": [h, seeds, order],
                                   "tier": tier})
        else:
            what = {"reverse-order": "enumeration-order",
                    "further-instances-created-after-seeding": "further-instances-created-after-seeding",
                    "temporary-schemas-generated-and-dropped-before":
                        "temporary-schemas-generated-and-dropped-before",
                    "environment-TZ": "the-TZ-environment-variable",
                    "decimal-context": "the-application's-decimal-context",
                    "pure-operations-between-generations": "pure-operations-on-the-schema-between-generations"
                    }.get(label, "an-earlier-seed-in-the-same-process")
            i = diff[0]
            members = sorted({show(terms[j]) for i2 in diff[:200] for j in seqs[i2]})
            acc.violation(f"C17|value-depends-on-{what}",
                          {"kind": "pair", "sequence": [show(terms[j]) for j in seqs[i]], "seq_index": i,
                           "a": [bh, bseeds, border], "b": [h, seeds, order], "tier": tier,
                           "differing_sequences": len(diff), "schemas_involved": members[:12]})
    acc.count("schemas_with_hash_dependent_draws", len(site_of))
    acc.sample({"schemas": [show(t) for t in terms[:6]], "hashseeds": hs, "seeds": SEEDS[tier],
                "sequences": len(seqs)})
    acc.sample({"sequence": [show(terms[i]) for i in seqs[len(terms) + 17]]})
    acc.sample({"configurations": [c[0] + " seeds=" + repr(c[2]) + " " + c[3] for c in confs[:8]]})
    cov = {
        "states": len(seqs),
        "transitions": acc.n["sequence_runs"],
        "traces_validated_against_impl": acc.n["sequence_runs"],
        "evaluations": acc.n["sequence_runs"],
        "distinct_nontrivial": len(acc.outcomes),
        "rule": "fresh interpreter per (PYTHONHASHSEED | reverse order | after another seed) x seed x "
                "every schema sequence up to the length bound, each run twice in-process; distinct = "
                "(seed, digest) pairs of the baseline",
        "exhaustive": True,
        "bounds": {"tier": tier, "hashseeds": hs, "seeds": [repr(k) for k in SEEDS[tier]],
                   "schemas": len(terms), "sequences": len(seqs),
                   "configurations": acc.n["configurations"]},
    }
    return acc, cov, ["exhaustive over the stated finite menu of hash seeds, not over all 2**32",
                      "unfixed uuid4/datetime/date schemas are excluded as the property says"]


def replay(case):
    tier = case.get("tier", "quick")
    if case.get("kind") == "unstable":
        r = child(case["hashseed"], case["seeds"], tier, "digests", case["order"])
        return True if r["runs"][-1]["unstable"] else None
    if case.get("kind") == "pair":
        (ha, sa, oa), (hb, sb, ob) = case["a"], case["b"]
        a = child(ha, sa, tier, "digests", oa)["runs"][-1]["digests"]
        b = child(hb, sb, tier, "digests", ob)["runs"][-1]["digests"]
        if a[case["seq_index"]] != b[case["seq_index"]]:
            return True
        if "schema" in case:
            # a singleton can coincide by chance; any differing sequence containing the schema counts
            names = [show(t) for t in schema_terms()]
            j = names.index(case["schema"])
            return True if any(x != y for x, y, q in zip(a, b, sequences(tier)) if j in q) else None
    return None
