"""C17 - seeded generation is reproducible (E4 configuration enumerator + E2 draw sites).

Every (PYTHONHASHSEED, seed k) configuration is a fresh interpreter that runs every schema
sequence with the real RNG after Random().set_seed(k); digests are compared across hash seeds
with equal k and on in-process repetition.  A second pass records the arguments of every draw
under the scripted RNG and names the first draw site whose candidates depend on the hash seed.
"""
import json
import os
import subprocess
import sys
from concurrent.futures import ThreadPoolExecutor

from .. import env
from ..c17_child import schema_terms, sequences
from ..runner import Acc
from ..terms import show

HASHSEEDS = {"quick": ["0", "1", "2", "random"], "thorough": ["0", "1", "2", "3", "4", "7", "random"]}
SEEDS = {"quick": ["0", "42", "s"], "thorough": ["0", "1", "42", "s", "-5"]}


def child(hashseed, k, tier, mode):
    e = dict(os.environ)
    e["PYTHONHASHSEED"] = hashseed
    e["PYTHONDONTWRITEBYTECODE"] = "1"
    e["D42_REPO"] = env.REPO
    p = subprocess.run([sys.executable, "-W", "ignore", "-m", "mc.c17_child", k, tier, mode],
                       cwd=env.VERIF, env=e, capture_output=True, text=True, timeout=1200)
    if p.returncode != 0:
        return {"error": p.stderr[-800:]}
    return json.loads(p.stdout)


def first_divergent_site(a, b):
    """Compares two draw-site recordings of one schema."""
    for i, (x, y) in enumerate(zip(a["sites"], b["sites"])):
        if x != y:
            kind, who = x[0], x[-1]
            same_set = sorted(x[2]) == sorted(y[2]) if len(x) > 3 and len(y) > 3 else False
            how = "same-candidates-different-order" if same_set else "different-arguments"
            return f"{who}|{kind}|{how}"
    if len(a["sites"]) != len(b["sites"]):
        return "different-number-of-draws"
    return None


def run(tier, seed):
    acc = Acc()
    terms = schema_terms()
    seqs = list(sequences(tier))
    # "random" is replaced by a value derived from VERIF_SEED so that a run can be replayed
    derived = str((seed * 2654435761 + 12345) % 4294967295)
    hs = [derived if h == "random" else h for h in HASHSEEDS[tier]]
    ks = SEEDS[tier]
    rot = seed % len(hs)
    jobs = [(h, k, "digests") for k in ks for h in hs[rot:] + hs[:rot]] + [(h, "0", "sites") for h in hs]
    with ThreadPoolExecutor(max_workers=16) as ex:
        results = list(ex.map(lambda j: child(j[0], j[1], tier, j[2]), jobs))
    res = dict(zip(jobs, results))
    for j, r in res.items():
        if "error" in r:
            acc.notes.append(f"WORKER-CRASH child {j}: {r['error']}")
    if acc.notes:
        return acc, {"states": 1, "transitions": 1, "traces_validated_against_impl": 0,
                     "samples": ["child crashed"]}, []
    # draw sites across hash seeds (names the culprit)
    site_of = {}
    base_sites = res[(hs[0], "0", "sites")]["sites"]
    for h in hs[1:]:
        other = res[(h, "0", "sites")]["sites"]
        for i, (a, b) in enumerate(zip(base_sites, other)):
            d = first_divergent_site(a, b)
            if d and i not in site_of:
                site_of[i] = d
    acc.count("draw_site_recordings", len(hs) * len(terms))
    for k in ks:
        base = res[(hs[0], k, "digests")]
        for h in hs:
            r = res[(h, k, "digests")]
            acc.count("configurations")
            acc.count("sequence_runs", 2 * len(r["digests"]))
            for idx in r["unstable"]:
                seq = seqs[idx]
                acc.violation("C17|differs-on-repetition-in-one-process|"
                              + show(terms[seq[-1]]), {"sequence": [show(terms[i]) for i in seq],
                                                       "hashseed": h, "seed": k})
            if h == hs[0]:
                continue
            diff = [i for i, (a, b) in enumerate(zip(base["digests"], r["digests"])) if a != b]
            # a schema is a culprit if it differs alone OR its draw candidates depend on the hash
            # seed (a singleton can coincide by chance: different order, same picked character)
            single = {seqs[i][0] for i in diff if len(seqs[i]) == 1} | set(site_of)
            for i in diff:
                seq = seqs[i]
                culprits = [j for j in seq if j in single]
                if culprits:
                    if len(seq) > 1 and not all(j in site_of for j in culprits):
                        continue             # explained by a schema that already differs alone
                    j = culprits[0]
                    site = site_of.get(j, "no-divergent-draw-site-found")
                    acc.violation(f"C17|value-depends-on-hash-seed|{site}",
                                  {"schema": show(terms[j]), "seed": k, "hashseeds": [hs[0], h],
                                   "first_divergent_draw": site})
                else:
                    acc.violation("C17|sequence-depends-on-hash-seed-though-members-do-not",
                                  {"sequence": [show(terms[j]) for j in seq], "seq_index": i,
                                   "seed": k, "hashseeds": [hs[0], h], "tier": tier})
        for d in base["digests"]:
            acc.outcome((k, d))
    for i, d in site_of.items():
        acc.count("schemas_with_hash_dependent_draws")
    acc.sample({"schemas": [show(t) for t in terms[:6]], "hashseeds": hs, "seeds": ks,
                "sequences": len(seqs)})
    acc.sample({"sequence": [show(terms[i]) for i in seqs[len(terms) + 17]]})
    cov = {
        "states": len(seqs),
        "transitions": acc.n["sequence_runs"],
        "traces_validated_against_impl": acc.n["sequence_runs"],
        "evaluations": acc.n["sequence_runs"],
        "distinct_nontrivial": len(acc.outcomes),
        "rule": "fresh interpreter per (PYTHONHASHSEED, seed) x every schema sequence up to the length "
                "bound, each run twice in-process; distinct = (seed, digest) pairs of the baseline",
        "exhaustive": True,
        "bounds": {"tier": tier, "hashseeds": hs, "seeds": ks, "schemas": len(terms),
                   "sequences": len(seqs), "configurations": acc.n["configurations"]},
    }
    return acc, cov, ["exhaustive over the stated finite menu of hash seeds, not over all 2**32",
                      "unfixed uuid4/datetime/date schemas are excluded as the property says"]


def replay(case):
    tier = "quick"
    terms = schema_terms()
    names = [show(t) for t in terms]
    if "schema" in case:
        j = names.index(case["schema"])
        h0, h1 = case["hashseeds"]
        seqs = list(sequences(tier))
        a = child(h0, case["seed"], tier, "digests")["digests"]
        b = child(h1, case["seed"], tier, "digests")["digests"]
        idx = seqs.index((j,))
        if a[idx] != b[idx]:
            return True
        # the singleton may coincide by chance; any sequence containing the schema counts
        return True if any(x != y for x, y, q in zip(a, b, seqs) if j in q) else None
    if "seq_index" in case:
        h0, h1 = case["hashseeds"]
        a = child(h0, case["seed"], case.get("tier", "quick"), "digests")["digests"]
        b = child(h1, case["seed"], case.get("tier", "quick"), "digests")["digests"]
        return True if a[case["seq_index"]] != b[case["seq_index"]] else None
    return None
