"""C08 - validation is total: any Python value yields a result, and failing is reporting.

Every universe term x (every zoo member alone + every witness with every zoo member injected
at every position: as replacement of any node, as extra list element, as extra dict value/key).
"""
import copy

from d42 import schema, validate, validate_or_fail
from d42.validation import Formatter, ValidationException, ValidationResult, format_result

from .. import model as M
from ..codec import src, unsrc
from ..common import safe_repr, shard_items, short_lived, tname
from ..runner import Acc, parallel, parallel_fresh
from ..terms import show, size, try_build, unique_subterms
from ..universe import universe
from ..values import ZOO, inject
from .c03 import enrich

NWIT = {"quick": 3, "thorough": 8}
FMT = Formatter()


def check_value(s, v, **options):
    """None, or a short kind string describing how totality failed.  `options` are extra keyword
    arguments of validate() / validate_or_fail() (handed down to nested schemas)."""
    try:
        res = validate(s, v, **options)
    except Exception as e:  # noqa: BLE001
        return f"validate-raises:{type(e).__name__}"
    if not isinstance(res, ValidationResult):
        return "validate-returned-non-result"
    errors = res.get_errors()
    for e in errors:
        try:
            m = e.format(FMT)
        except Exception as ex:  # noqa: BLE001
            return f"format-raises:{type(ex).__name__}:{type(e).__name__}"
        if not isinstance(m, str) or not m.strip():
            return f"empty-message:{type(e).__name__}"
    try:
        fr = format_result(res)
        if not isinstance(fr, list) or (errors and len(fr) != len(errors) + 1) or (not errors and fr):
            return "format_result-wrong-shape"
    except Exception as ex:  # noqa: BLE001
        return f"format_result-raises:{type(ex).__name__}"
    try:
        r = validate_or_fail(s, v, **options)
        if r is not True:
            return "validate_or_fail-returned-non-True"
        if errors:
            return "validate_or_fail-returned-True-with-errors"
    except ValidationException as ex:
        if not errors:
            return "validate_or_fail-raised-without-errors"
        if str(ex).count("\n - ") != len(errors):
            return "validate_or_fail-line-count-differs"
    except Exception as ex:  # noqa: BLE001
        return f"validate_or_fail-raises:{type(ex).__name__}"
    return None


def options_block(acc):
    """validate(s, v, **options) against validate_or_fail(s, v, **options) for a user-defined type
    that interprets an option (mc/fwdtype.StrictInt: mc_strict=True refuses bools), alone and at
    nested positions, behind aliases and forwarders; the option must decide both the same way."""
    from .. import fwdtype
    n = schema.mc_strictint
    shapes = {
        "strictint": (n, lambda x: x),
        "list(strictint)": (schema.list(n), lambda x: [x]),
        "list([strictint, ...])": (schema.list([n, ...]), lambda x: [x, 1]),
        "dict{n: strictint}": (schema.dict({"n": n, ...: ...}), lambda x: {"n": x}),
        "any(none, strictint)": (schema.any(schema.none, n), lambda x: x),
        "alias(strictint)": (schema.alias("T", n), lambda x: x),
        "alias(alias(list))": (schema.alias("U", schema.alias("T", schema.list(n))), lambda x: [x]),
        "fwd(strictint)": (fwdtype.wrap(n), lambda x: x),
        "fwdkw(dict)": (fwdtype.wrap(schema.dict({"n": n}), "kw"), lambda x: {"n": x}),
        "dict{k: alias(any)}": (schema.dict({"k": schema.alias("T", schema.any(n, schema.none))}),
                                lambda x: {"k": x}),
    }
    for name, (s, put) in shapes.items():
        for raw in (True, False, 1, 0, None, "x", 1.0, [True], ZOO[0]):
            for options in ({}, {"mc_strict": True}, {"mc_strict": False}, {"mc_unused": 1}):
                v = put(raw)
                acc.count("validations")
                acc.count("validations_with_options")
                kind = check_value(s, v, **options)
                if kind is None and options.get("mc_strict") and isinstance(raw, bool) \
                        and not validate(s, v, **options).has_errors():
                    kind = "option-did-not-reach-the-nested-type"
                if kind is None and not options.get("mc_strict") and isinstance(raw, int) \
                        and validate(s, v, **options).has_errors():
                    kind = "errors-without-the-option"
                if kind:
                    acc.violation(f"C08|{kind}|{name}|options={sorted(options)}",
                                  {"shape": name, "raw": safe_repr(raw), "options": options, "kind": kind,
                                   "block": "options"})


_EXTENDED = []


def user_extensions():
    if _EXTENDED:
        return
    _EXTENDED.append(True)
    from d42.declaration import SchemaVisitor
    from d42.representation import Representor

    class ExtFormatter(Formatter, extend=True):
        def format_mc_custom_error(self, error):
            return self._at_path(error, "custom") + self._get_type(error, 1, 2)

        def _at_path(self, error, label):
            return f"{label}@{error!r}"

        def _get_type(self, a, b, c):
            return "custom-type"

        def _pluralize(self):
            return "things"

    class ExtRepresentor(Representor, extend=True):
        def visit_mc_custom(self, schema, **kwargs):
            return self._helper(schema)

        def _helper(self, schema):
            return "<mc>"

    class ExtVisitor(SchemaVisitor, extend=True):
        def visit_mc_custom(self, schema, **kwargs):
            return None


def _m_clear(v):
    v.clear()


def _m_add_hostile(v):
    if isinstance(v, list):
        v.append(ZOO[0])
        v.insert(0, None)
    else:
        v[(0, "extra")] = ZOO[0]


def _m_break_member(v):
    if isinstance(v, list):
        v[0] = {"zz": [None]} if not isinstance(v[0], dict) else "q"
    else:
        k = next(iter(v))
        v[k] = {"zz": [None]} if not isinstance(v[k], dict) else "q"


def _m_nested(v):
    inner = v[0] if isinstance(v, list) else v[next(iter(v))]
    if isinstance(inner, list):
        inner.append(object)
    elif isinstance(inner, dict):
        inner[None] = object
    else:
        raise ValueError("no nested container")


MUTATIONS = [_m_clear, _m_add_hostile, _m_break_member, _m_nested]


def minimal_site(t, z, kind):
    """Smallest sub-term on which the bare zoo member alone already fails the same way."""
    for st in unique_subterms(t):
        s, _ = try_build(st)
        if s is not None and check_value(s, z) == kind:
            return st
    return t


def zname(z):
    n = tname(z)
    if type(z) is int and z.bit_length() > 15000:
        return "int-over-4300-digits"
    if isinstance(z, float):
        return f"float:{z!r}"
    if isinstance(z, dict) and len(z) == 1:
        return f"{n}-with-{tname(next(iter(z)))}-key"
    return n


def worker(shard, nshards, tier, seed):
    acc = Acc()
    U = list(universe(tier)) + enrich(tier)
    for i, t in shard_items(U, shard, nshards):
        s, err = try_build(t)
        if s is None:
            acc.count("build_failed")
            continue
        acc.count("schemas")
        cases = [(z, z) for z in ZOO]
        for w in M.witnesses(t)[:NWIT[tier]]:
            for z in ZOO:
                for v in inject(w, z):
                    cases.append((z, v))
        acc.count("nested_injections", len(cases) - len(ZOO))
        # the same container object judged again after the caller changed it in place
        for w in M.witnesses(t)[:NWIT[tier]]:
            if not isinstance(w, (list, dict)):
                continue
            for mutate in MUTATIONS:
                v = copy.deepcopy(w)
                first = check_value(s, v)
                try:
                    mutate(v)
                except Exception:  # noqa: BLE001
                    continue
                acc.count("validations", 2)
                acc.count("judged_again_after_in_place_change")
                kind = first or check_value(s, v)
                if kind:
                    acc.violation(f"C08|{kind}|{show(t)}|after-in-place-change",
                                  {"term": src(t), "term_show": show(t), "value": src(w),
                                   "mutation": mutate.__name__, "kind": kind})
        # the value handed in is itself a schema - the very object, an equal rebuild, another one -
        # alone and as a member (an opaque object like any other: never conforming, never fatal)
        twin = try_build(t, leave_args=True)[0]
        for label, obj in (("same-object", s), ("equal-schema", twin), ("other-schema", schema.int)):
            for shape, v in (("alone", obj), ("in-list", [obj]), ("in-dict", {"a": obj})):
                acc.count("validations")
                acc.count("schema_as_value")
                kind = check_value(s, v)
                if kind is None and shape == "alone" and t[0] != "any" and not validate(s, v).has_errors() \
                        and M.resolve(t)[0] not in ("any",):
                    kind = "schema-object-accepted-as-a-value"
                if kind:
                    acc.violation(f"C08|{kind}|{show(t)}|schema-as-value:{label}:{shape}",
                                  {"term": src(t), "term_show": show(t), "kind": kind,
                                   "schema_as_value": [label, shape]})
        for z, v in cases:
            acc.count("validations")
            kind = check_value(s, v)
            acc.outcome((i, tname(z), kind))
            if kind:
                mt = minimal_site(t, z, kind)
                acc.violation(f"C08|{kind}|{show(mt)}|{zname(z)}",
                              {"term": src(t), "term_show": show(t), "value": src(v),
                               "zoo_member": src(z), "kind": kind})
        if i % 101 == 0:
            acc.sample({"schema": show(t), "values": len(cases)})
    if shard == 2 % nshards:
        options_block(acc)
    # last in the shard: the user registers extensions through the documented `extend=True` route
    # (a formatter with a new public method and PRIVATE helpers of its own, a representor and a
    # schema visitor with new methods); rendering the built-in errors must be unaffected
    user_extensions()
    for i, t in shard_items(U, shard, nshards):
        s, err = try_build(t)
        if s is None:
            continue
        acc.count("schemas_again_after_user_extensions")
        for v in [z for z in ZOO[::5]] + [w for w in M.witnesses(t)[:1]]:
            for vv in ([v] + inject(M.witnesses(t)[0], v)[:4] if M.witnesses(t) else [v]):
                acc.count("validations")
                kind = check_value(s, vv)
                if kind:
                    acc.violation(f"C08|{kind}|{show(t)}|{zname(v)}|after-user-extensions",
                                  {"term": src(t), "term_show": show(t), "value": src(vv),
                                   "kind": kind, "user_extensions": True})
    return acc


def reuse_worker(shard, nshards, tier, seed):
    """Short-lived schemas (see common.short_lived): every witness and a few hostile values against
    a schema that is dropped before the next one of the same shape is built."""
    acc = Acc()
    hostile = ZOO[::6]

    def examine(t, s):
        cases = [(w, w) for w in M.witnesses(t)[:6]] + [(z, z) for z in hostile]
        for w in M.witnesses(t)[:1]:
            for z in hostile[:3]:
                cases += [(z, v) for v in inject(w, z)[:6]]
        for z, v in cases:
            acc.count("short_lived_validations")
            kind = check_value(s, v)
            if kind:
                acc.violation(f"C08|{kind}|{show(t)}|{zname(z)}",
                              {"term": src(t), "term_show": show(t), "value": src(v),
                               "zoo_member": src(z), "kind": kind})

    short_lived(list(universe(tier)) + enrich(tier), shard, nshards, acc, examine)
    return acc


def run(tier, seed):
    acc = parallel(worker, tier, seed, warm_pass=True)
    acc.merge(parallel_fresh(reuse_worker, tier, seed, nshards=16))
    cov = {
        "states": acc.n["schemas"],
        "transitions": acc.n["validations"],
        "traces_validated_against_impl": acc.n["validations"],
        "evaluations": acc.n["validations"],
        "distinct_nontrivial": acc.n["nested_injections"],
        "rule": "universe term x (zoo member alone | witness with the zoo member injected at one "
                "position); non-trivial = the hostile value sits inside an otherwise conforming value",
        "exhaustive": True,
        "bounds": {"tier": tier, "zoo": len(ZOO), "witnesses_per_schema": NWIT[tier]},
        "short_lived_pass": {"builds": acc.n["short_lived_builds"],
                             "validations": acc.n["short_lived_validations"],
                             "address_reused_by_a_different_schema":
                                 acc.n["address_reused_by_a_different_schema"]},
    }
    return acc, cov, ["objects whose own special methods raise are not in the zoo",
                      "each error is rendered with the stock Formatter"]


def replay(case):
    if case.get("block") == "options":
        acc = Acc()
        options_block(acc)
        return list(acc.viol)
    t, v = unsrc(case["term"]), unsrc(case["value"])
    s, err = try_build(t)
    if s is None:
        return f"build failed {err!r}"
    if case.get("user_extensions"):
        user_extensions()
    if "schema_as_value" in case:
        label, shape = case["schema_as_value"]
        obj = {"same-object": s, "equal-schema": try_build(t, leave_args=True)[0], "other-schema": schema.int}[label]
        v = {"alone": obj, "in-list": [obj], "in-dict": {"a": obj}}[shape]
        kind = check_value(s, v)
        if kind is None and case["kind"] == "schema-object-accepted-as-a-value" and not validate(s, v).has_errors():
            kind = case["kind"]
        return True if kind == case["kind"] else None
    if "mutation" in case:
        first = check_value(s, v)
        {m.__name__: m for m in MUTATIONS}[case["mutation"]](v)
        return True if (first or check_value(s, v)) == case["kind"] else None
    return True if check_value(s, v) == case["kind"] else None
