"""C05 - see _subst_common (one enumeration of substitutions, three oracles)."""
from . import _subst_common as C


def run(tier, seed):
    return C.run("C05", tier, seed)


def replay(case):
    return C.replay("C05", case)
