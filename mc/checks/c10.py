"""C10 - a declaration either fails cleanly or yields a self-consistent schema.

Explicit-state BFS over the declaration graph of every type: all chains up to a length over the
argument alphabets (valid, boundary, contradictory, wrongly typed).  Oracle on every transition.
"""
from niltype import Nil

from d42 import validate

from .. import e1
from ..codec import src
from ..common import safe_repr, tname
from ..runner import Acc, parallel
from ..terms import E, fp

MAXLEN = {"quick": 6, "thorough": 8}


def arg_class(args):
    out = []
    for a in args:
        if isinstance(a, str) and len(a) > 6:
            out.append("str:" + a[:24])
        elif isinstance(a, (list, tuple, dict)):
            out.append(tname(a))
        elif isinstance(a, float):
            out.append(f"float:{a!r}")
        elif isinstance(a, e1.Sch):
            out.append("schema")
        else:
            out.append(tname(a) if not isinstance(a, (int, str)) or isinstance(a, bool)
                       else f"{tname(a)}:{a!r}"[:20])
    return ",".join(out)


def fixed_value(r):
    """(True, value) when the schema pins one value completely."""
    v = r.props.get("value")
    if v is not Nil:
        return True, v
    if type(r).__name__ == "ListSchema":
        els = r.props.get("elements")
        if els is not Nil and all(x is not E for x in els):
            # a fully fixed element list: its length is fixed even where an element is not pinned
            # (for such an element any conforming probe will do)
            out = []
            for x in els:
                pv = x.props.get("value")
                if pv is Nil:
                    pv = next((p for p in _PROBES if not validate(x, p).has_errors()), Nil)
                    if pv is Nil:
                        return False, None
                out.append(pv)
            return True, out
    return False, None


_PROBES = [None, 0, 1, "a", "", 1.5, True, b"", [], {}]


def families(kind, chain):
    fam = set()
    for m, a in chain:
        f = e1.FAMILY.get(m, m)
        if kind in ("list", "dict", "any") and m == "__call__":
            f = "members"
        fam.add(f)
    return fam


def judge(kind, s, chain, method, args, out, before):
    """Yields violation tails for one transition."""
    where = f"{kind}.{method if method != '__call__' else '()'}({arg_class(args)})"
    if out[0] == "exc":
        yield f"raises:{out[1]}|{where}"
    elif out[0] == "other":
        yield f"returned-non-schema|{where}"
    if fp(s) != before[0] or safe_repr(s) != before[1]:
        yield f"receiver-changed|{where}"
    if out[0] != "schema":
        return
    r = out[1]
    f = e1.FAMILY.get(method, method)
    if kind in ("list", "dict", "any") and method == "__call__":
        f = "members"
    if f in families(kind, chain):
        yield f"redeclaration-accepted|{kind}.{f}"
    has, v = fixed_value(r)
    if has:
        try:
            errs = validate(r, v).get_errors()
        except Exception as e:  # noqa: BLE001
            yield f"own-value-validate-raises:{type(e).__name__}|{where}"
            return
        if errs:
            kinds = ",".join(sorted({type(e).__name__.replace("ValidationError", "") for e in errs}))
            declared = "+".join(sorted(families(kind, chain) | {f}))
            yield f"own-value-rejected:{kinds}|{kind}[{declared}]"


def worker(shard, nshards, tier, seed):
    acc = Acc()
    kinds = e1.KINDS
    for ki in range(shard, len(kinds), nshards):
        kind = kinds[ki]
        cache = {}

        def on_tr(s, chain, method, args, out, kind=kind, cache=cache):
            key = id(s)
            if key not in cache:
                cache[key] = (fp(s), safe_repr(s))
            acc.count("transitions")
            acc.n["out:" + out[0]] += 1
            acc.outcome((kind, method, arg_class(args), out[0]))
            for tail in judge(kind, s, chain, method, args, out, cache[key]):
                acc.violation(f"C10|{tail}", {"kind": kind, "chain": e1.chain_src(chain),
                                              "method": method, "args": e1.arg_src(args),
                                              "tier": tier})

        def on_st(s, chain, cache=cache):
            # the receiver as it is BEFORE any call is made on it (props first, then the printed
            # form: a representor that rearranges what it prints shows as a change of props)
            cache.setdefault(id(s), (fp(s), safe_repr(s)))

        seen, ntr = e1.bfs(kind, tier, MAXLEN[tier], on_tr, on_st)
        acc.count("states", len(seen))
        acc.n[f"fixpoint:{kind}"] = int(e1.bfs.last_fixpoint)
        acc.n[f"states:{kind}"] = len(seen)
        some = list(seen.values())[-1]
        acc.sample({"type": kind, "states": len(seen), "transitions": ntr,
                    "deepest_state": safe_repr(some[0], 120), "chain": e1.chain_src(some[1])})
    return acc


def run(tier, seed):
    acc = parallel(worker, tier, seed, nshards=len(e1.KINDS))
    cov = {
        "states": acc.n["states"],
        "transitions": acc.n["transitions"],
        "traces_validated_against_impl": acc.n["transitions"],
        "evaluations": acc.n["transitions"],
        "distinct_nontrivial": acc.n["out:decl"],
        "rule": "BFS over fp-canonicalised schema states of each of the 12 facade types; every "
                "(method, argument) of the alphabet from every state, chains <= max_len; "
                "non-trivial = transitions rejected with DeclarationError",
        "exhaustive": True,
        "states_by_type": {k[7:]: v for k, v in acc.n.items() if k.startswith("states:")},
        "graph_fully_explored_by_type": {k[9:]: bool(v) for k, v in acc.n.items()
                                         if k.startswith("fixpoint:")},
        "bounds": {"tier": tier, "max_chain_length": MAXLEN[tier] + 0,
                   "alphabet_sizes": {k: len(e1.alphabet(k, tier)) for k in e1.KINDS}},
    }
    return acc, cov, ["states are merged by structural fingerprint (declaration reads only props "
                      "and arguments; hidden state is hunted by C07)",
                      "Python arity errors and optional(...) are outside the alphabet; nan is a value, not a bound"]


def _replay_inner(case):
    """Re-runs the whole BFS of that type (deterministic order, < 1 s) and reports every signature:
    a transition's outcome may depend on transitions executed earlier in the same process."""
    sigs = set()
    kind = case["kind"]
    cache = {}

    def on_tr(s, chain, method, args, out):
        key = id(s)
        if key not in cache:
            cache[key] = (fp(s), safe_repr(s))
        for tail in judge(kind, s, chain, method, args, out, cache[key]):
            sigs.add(f"C10|{tail}")

    e1.bfs(kind, case.get("tier", "quick"), MAXLEN[case.get("tier", "quick")], on_tr,
           lambda s, chain: cache.setdefault(id(s), (fp(s), safe_repr(s))))
    return sorted(sigs)


def replay(case):
    from ..runner import replay_in_fresh_interpreter
    return replay_in_fresh_interpreter("mc.checks.c10", case)
