"""C02 - validation verdict equals the declared constraints (conformance of M.accepts).

Enumerates every term of the universe x every value of V(T) and compares the verdict of the
real validate() (and of `schema == value`) with the reference model.
"""
from .. import model as M
from ..codec import unsrc
from ..common import case_tv, innermost_disagreement, shard_items, short_lived, tname, verdict
from ..runner import Acc, parallel, parallel_fresh
from ..terms import show, try_build
from ..universe import universe
from ..values import value_universe

VLIMIT = {"quick": 600, "thorough": None}


def check_pair(t, s, v):
    """None if fine, else a signature."""
    got = verdict(s, v)
    try:
        exp = M.accepts(t, v)
    except M.ModelGap:
        return None
    if got != exp:
        it, iv = innermost_disagreement(t, v)
        d = got if isinstance(got, str) else ("impl-accepts" if got else "impl-rejects")
        return f"C02|{d}|{show(it)}|{tname(iv)}"
    try:
        eqv = (s == v)
    except Exception as e:  # noqa: BLE001
        return f"C02|eq-raises:{type(e).__name__}|{show(t)}|{tname(v)}"
    if eqv is not exp:
        return f"C02|eq-differs-from-validate|{show(t)}|{tname(v)}"
    try:
        nev = (s != v)
    except Exception as e:  # noqa: BLE001
        return f"C02|ne-raises:{type(e).__name__}|{show(t)}|{tname(v)}"
    if nev is not (not exp):
        return f"C02|ne-not-negation|{show(t)}|{tname(v)}"
    return None


def src_term(t):
    from ..codec import src
    return src(t)


def operands_after_derivation(t):
    """Builds the derived term keeping every intermediate object, then judges each OPERAND object
    (not the result) against the model of its own term."""
    from ..terms import Builder
    b = Builder(track=True)
    try:
        result = b.build(t)
    except Exception:  # noqa: BLE001
        return
    for obj in list(b.keep):
        ot = b.ids.get(id(obj))
        if obj is result or ot is None or ot[0] not in ("dict", "list", "any"):
            continue
        vals, _ = value_universe(ot, 24)
        for v in vals:
            yield ot, obj, v, check_pair(ot, obj, v)


_EXTENDED = []


def user_extensions():
    """The user extends the SUBSTITUTION validator - a visitor two levels below SchemaVisitor -
    through the documented `extend=True` route with lenient visit methods of its own.  What plain
    validation accepts must be what it was."""
    if _EXTENDED:
        return
    _EXTENDED.append(True)
    from d42.substitution import SubstitutorValidator

    class LenientSubstitutorValidator(SubstitutorValidator, extend=True):
        def visit_int(self, schema, **kwargs):
            return self.make_validation_result()

        def visit_str(self, schema, **kwargs):
            return self.make_validation_result()

        def visit_none(self, schema, **kwargs):
            return self.make_validation_result()

        def visit_list(self, schema, **kwargs):
            return self.make_validation_result()

        def visit_dict(self, schema, **kwargs):
            return self.make_validation_result()

        def visit_any(self, schema, **kwargs):
            return self.make_validation_result()

        def visit_mc_only(self, schema, **kwargs):
            return None


def worker(shard, nshards, tier, seed):
    acc = Acc()
    U = universe(tier)
    for i, t in shard_items(U, shard, nshards):
        s, err = try_build(t)
        if s is None:
            acc.count("build_failed")
            acc.sample({"build_failed": show(t), "error": repr(err)[:200]})
            continue
        acc.count("schemas")
        vals, capped = value_universe(t, VLIMIT[tier])
        if capped:
            acc.cap("value_universe_thinned")
        n_acc = 0
        for v in vals:
            acc.count("pairs")
            sig = check_pair(t, s, v)
            if sig:
                acc.violation(sig, case_tv(t, v))
            try:
                a = M.accepts(t, v)
            except M.ModelGap:
                acc.count("model_gap")
                continue
            n_acc += bool(a)
            acc.outcome((i, len(vals), a, tname(v)))
        if 0 < n_acc < len(vals):
            acc.count("schemas_with_both_verdicts")
        if t[0] in ("mkreq", "add", "or", "subst"):
            # the operands a schema was derived from still mean what they were declared to mean
            for ot, obj, v, sig in operands_after_derivation(t):
                acc.count("operand_pairs_after_derivation")
                if sig:
                    acc.violation(sig + "|operand-after-derivation",
                                  case_tv(ot, v, derived=src_term(t)))
        if i % 97 == 0:
            acc.sample({"schema": show(t), "values": len(vals), "accepted_by_model": n_acc})
    # last in the shard (a process of its own): after a user extension of another visitor class
    user_extensions()
    for i, t in shard_items(U, shard, nshards):
        s, err = try_build(t)
        if s is None:
            continue
        acc.count("schemas_again_after_user_extensions")
        for v in value_universe(t, 24)[0]:
            acc.count("pairs")
            sig = check_pair(t, s, v)
            if sig:
                acc.violation(sig + "|after-user-extensions", case_tv(t, v, user_extensions=True))
    return acc


def reuse_worker(shard, nshards, tier, seed):
    """Short-lived schemas (see common.short_lived): same oracle, fewer values per schema."""
    acc = Acc()

    def examine(t, s):
        vals, _ = value_universe(t, 40)
        for v in vals:
            acc.count("short_lived_pairs")
            sig = check_pair(t, s, v)
            if sig:
                acc.violation(sig, case_tv(t, v))

    short_lived(universe(tier), shard, nshards, acc, examine)
    return acc


def run(tier, seed):
    acc = parallel(worker, tier, seed, warm_pass=True)
    acc.merge(parallel_fresh(reuse_worker, tier, seed, nshards=16))
    cov = {
        "states": acc.n["schemas"],
        "transitions": acc.n["pairs"],
        "traces_validated_against_impl": acc.n["pairs"],
        "evaluations": acc.n["pairs"],
        "distinct_nontrivial": acc.n["schemas_with_both_verdicts"],
        "rule": "every universe term x every value of V(T) (witnesses, single-step perturbations "
                "at every depth, bound-1/bound/bound+1, unrelated); a schema is non-trivial when "
                "the model accepts some and rejects some of its values",
        "exhaustive": not acc.caps,
        "bounds": {"tier": tier, "value_limit_per_schema": VLIMIT[tier]},
        "short_lived_pass": {"builds": acc.n["short_lived_builds"], "pairs": acc.n["short_lived_pairs"],
                             "address_reused_by_a_different_schema":
                                 acc.n["address_reused_by_a_different_schema"]},
    }
    return acc, cov, ["M.accepts is the stated meaning of C02; re.search and math.isclose are "
                      "shared with the implementation by design",
                      "nan bounds and values inside the float tolerance band are not probed"]


def replay(case):
    if "derived" in case:
        ot, v = unsrc(case["term"]), unsrc(case["value"])
        return [sig + "|operand-after-derivation" for o2, _, v2, sig in
                operands_after_derivation(unsrc(case["derived"])) if sig and repr(o2) == repr(ot)]
    t, v = unsrc(case["term"]), unsrc(case["value"])
    s, err = try_build(t)
    if s is None:
        return f"build failed: {err!r}"
    if case.get("user_extensions"):
        user_extensions()
        sig = check_pair(t, s, v)
        return sig + "|after-user-extensions" if sig else None
    return check_pair(t, s, v)
