"""C04 - see _subst_common (one enumeration of substitutions, three oracles)."""
from . import _subst_common as C


def run(tier, seed):
    return C.run("C04", tier, seed)


def replay(case):
    return C.replay("C04", case)


def subst_cases(tier, for_generation=False):
    """(term, value) pairs whose substitution succeeds - C01 generates from these too."""
    from .. import model as M
    from ..subst import is_plain, partials, try_subst
    from ..terms import try_build
    out = []
    for t in C.all_terms(tier):
        if not M.hsat(t):
            continue
        s, _ = try_build(t)
        if s is None:
            continue
        vals = []
        for w in M.witnesses(t)[:3]:
            vals.append(w)
            vals += partials(w)[:6]
        if for_generation:
            # C01 speaks of every schema produced by substitution, placeholders included
            from ..subst import with_placeholders
            for w in M.witnesses(t)[:2]:
                vals += with_placeholders(w)[:25]
        seen = set()
        for v in vals:
            if (not for_generation and not is_plain(v)) or repr(v) in seen:
                continue
            seen.add(repr(v))
            if try_subst(s, v)[0] == "ok":
                out.append((t, v))
    return out
