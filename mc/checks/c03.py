"""C03 - every validation error is true and points at the offending sub-value.

For every (term, value) of the enumerated universe and every error the real validator (and
the SubstitutorValidator) returns: (1) the path resolves to the very object reported as
actual_value, (2) the stated fact holds of it, (3) the schema declares that parameter
somewhere on that path, (4) the rendered message names the path.
"""
import datetime as _dt
import re
import uuid

import th
from d42 import validate, validate_or_fail
from d42.substitution import SubstitutorValidator
from d42.validation import Formatter, ValidationException, format_result

from .. import model as M
from ..codec import src, unsrc
from ..common import safe_repr, shard_items
from ..runner import Acc, parallel
from ..terms import E, Builder, show
from ..universe import INT, NONE, S, STR, call, ln, universe
from ..values import cp, dedup, inject, perturb, value_universe

VLIMIT = {"quick": 400, "thorough": None}
PYTYPE = {"none": type(None), "bool": bool, "int": int, "float": float, "str": str, "list": list,
          "dict": dict, "bytes": bytes, "uuid4": uuid.UUID, "datetime": _dt.datetime,
          "date": _dt.date}
FMT = Formatter()
SUBV = SubstitutorValidator()


def enrich(tier):
    al = S("str", ("alphabet", "ab"))
    rx = S("str", ("regex", "^a.$"))
    sub = S("str", ("contains", "ab"))
    u4 = S("uuid4")
    mn = S("int", ("min", 0), ("max", 7))
    fl = S("float", ("min", 0.15), ("max", 0.35))
    sl = S("str", ln(2))
    leafs = [al, rx, sub, u4, mn, fl, sl, S("str", ln(1, 3)), S("int", call(7)), S("bytes", call(b"ab")),
             S("datetime"), S("date"), S("bool", call(True)), NONE,
             ("any", (mn, al)), ("list", ("elems", (INT, STR)), ()), ("list", ("typed", mn), (ln(2),)),
             ("list", ("typed", INT), (ln(1, E),)), ("list", ("typed", INT), (ln(E, 1),)),
             ("dict", (("a", False, mn), ("b", True, al)), False)]
    out = []
    for x in leafs:
        out += [("list", ("typed", x), ()), ("list", ("elems", (x, x)), ()),
                ("list", ("elems", (E, x, x)), ()), ("list", ("elems", (x, E)), ()),
                ("list", ("elems", (E, x, E)), ()),
                ("dict", (("a", False, x), ("b", False, x)), False),
                ("any", (x, NONE)), ("alias", "A", x),
                ("list", ("typed", ("dict", (("k", False, x), ("j", False, x)), False)), ()),
                ("dict", (("a", False, ("list", ("typed", x), ())),), False),
                ("dict", (("a", False, ("alias", "A", ("any", (x, NONE)))),), False)]
        if tier == "thorough":
            out += [("list", ("typed", ("list", ("elems", (x, E)), ())), ()),
                    ("dict", (("a", False, ("dict", (("b", False, ("list", ("typed", x), ())),),
                                            True)),), False),
                    ("any", (("list", ("typed", x), ()), ("dict", (("a", False, x),), False)))]
    return out


def all_bad(v):
    """Variant of a container value in which *every* leaf is wrong (>= 2 failing siblings)."""
    if isinstance(v, list):
        return [all_bad(x) for x in v]
    if isinstance(v, dict):
        return {k: all_bad(x) for k, x in v.items()}
    if isinstance(v, str):
        return "ZZZZZ"
    if isinstance(v, bool):
        return "x"
    if isinstance(v, int):
        return v + 1000
    if isinstance(v, float):
        return v + 1000.0
    return "x"


def values_for(t, tier):
    vals, capped = value_universe(t, VLIMIT[tier])
    extra = []
    for w in M.witnesses(t):
        if isinstance(w, (list, dict)) and w:
            extra.append(all_bad(w))
            if isinstance(w, list) and len(w) >= 1:
                extra.append([all_bad(x) for x in w] + [all_bad(w[0])])
            extra.append(cp(w))
            if isinstance(w, list) and len(w) >= 1:
                # the very same (bad) object at several positions: two siblings, one identity
                for b in (all_bad(w[0]), {"zz": None}, "q", -5):
                    extra.append([b, b])
                    extra.append([cp(w[0]), b, b])
            if isinstance(w, dict) and len(w) >= 2:
                ks = list(w)
                b = all_bad(w[ks[0]])
                d = cp(w)
                d[ks[0]] = b
                d[ks[1]] = b
                extra.append(d)
    # not-a-number against whatever the schema says about floats: no error about it may state a
    # comparison (nan is neither below a minimum nor above a maximum)
    # a big wrong-typed sub-value (its rendering is long) at every position of a witness
    for w in M.witnesses(t)[:1]:
        for big in ("q" * 3000, list(range(700))):
            extra += inject(w, big, max_out=6)
    nan = float("nan")
    extra.append(nan)
    for w in M.witnesses(t)[:1]:
        extra += inject(w, nan, max_out=10)
    return dedup(vals + extra), capped


def path_keys(path):
    return [op.operand for op in path]


def render_path(keys):
    return "_" + "".join(f"[{k!r}]" for k in keys)


def closure(nodes):
    """Expands alias / any / derived terms to the set of nodes whose declarations may apply."""
    out, todo = [], list(nodes)
    seen = set()
    while todo:
        t = todo.pop()
        r = repr(t)
        if r in seen:
            continue
        seen.add(r)
        out.append(t)
        k = t[0]
        if k in ("alias",):
            todo.append(t[2])
        elif k == "ualias":
            todo.append(M.UALIAS[t[1]])
        elif k == "fwd":
            todo.append(t[1])
        elif k == "any" and t[1] is not None:
            todo.extend(t[1])
        elif k in ("or", "add", "mkreq", "native"):
            try:
                todo.append(M.resolve(t))
            except M.ModelGap:
                pass
    return out


def _has_subst(t):
    """A substitution result's parameters come from the substituted value as well as from the
    declaration: the "declared on the path" clause has no model for them (the other clauses -
    path reaches the value, stated fact true, message names the path - still apply)."""
    if isinstance(t, tuple):
        return (len(t) > 0 and t[0] == "subst") or any(_has_subst(x) for x in t)
    return False


def nodes_at(t, keys):
    nodes = closure([t])
    for key in keys:
        nxt = []
        for n in nodes:
            if n[0] == "list" and n[1] is not None and isinstance(key, int):
                if n[1][0] == "typed":
                    nxt.append(n[1][1])
                else:
                    nxt.extend(x for x in n[1][1] if x is not E)
            elif n[0] == "dict" and n[1] is not None:
                for k, _, sub in n[1]:
                    if M._keq(k, key):
                        nxt.append(sub)
        nodes = closure(nxt)
    return nodes


def declares(node, e):
    """Does this (resolved) node declare exactly the parameter error e carries?"""
    name = type(e).__name__
    k = node[0]
    if k in ("mult", "nmult"):
        # the user type reports a wrong kind as a type error (int) and a non-multiple as a value
        # error quoting an example multiple
        return (name == "TypeValidationError" and e.expected_type is int) or \
            (name == "ValueValidationError" and e.expected_value in (node[1] * 2, node[1] * 2 + 1))
    p = {}
    if k in M.SCALARS:
        p = M.props_of(node[1])
    elif k == "list":
        p = M.props_of(node[2])
    if name == "TypeValidationError":
        return PYTYPE.get(k) is e.expected_type
    if name == "ValueValidationError":
        return "value" in p and _same(p["value"], e.expected_value)
    if name == "MinValueValidationError":
        return "min" in p and _same(p["min"], e.min_value)
    if name == "MaxValueValidationError":
        return "max" in p and _same(p["max"], e.max_value)
    if name == "LengthValidationError":
        return p.get("len") == e.length and "len" in p
    if name == "MinLengthValidationError":
        return "min_len" in p and p["min_len"] == e.min_length
    if name == "MaxLengthValidationError":
        return "max_len" in p and p["max_len"] == e.max_length
    if name == "AlphabetValidationError":
        return p.get("alphabet") == e.alphabet and "alphabet" in p
    if name == "SubstrValidationError":
        return p.get("substr") == e.substr and "substr" in p
    if name == "RegexValidationError":
        return p.get("pattern") == e.pattern and "pattern" in p
    if name == "MissingElementValidationError":
        return k == "list" and node[1] is not None and node[1][0] == "elems" \
            and len(M.list_shape(node[1][1])[1]) >= 1
    if name == "ExtraElementValidationError":
        return k == "list" and node[1] is not None and node[1][0] == "elems" \
            and M.list_shape(node[1][1])[0] == "exact" and e.index >= len(node[1][1])
    if name == "MissingKeyValidationError":
        return k == "dict" and node[1] is not None and any(
            M._keq(key, e.missing_key) and not opt for key, opt, _ in node[1])
    if name == "ExtraKeyValidationError":
        return k == "dict" and node[1] is not None and not node[2] and not any(
            M._keq(key, e.extra_key) for key, _, _ in node[1])
    if name == "SchemaMismatchValidationError":
        return k == "any" and node[1] is not None
    if name == "InvalidUUIDVersionValidationError":
        return k == "uuid4"
    return False


def _same(a, b):
    return type(a) is type(b) and (a == b or (a != a and b != b))


def fact_holds(e, actual, builder):
    """The fact the error states, evaluated on the sub-value it names."""
    name = type(e).__name__
    try:
        if name == "TypeValidationError":
            return not isinstance(actual, e.expected_type)
        if name == "ValueValidationError":
            return not _same(actual, e.expected_value) and (
                actual != e.expected_value or type(actual) is not type(e.expected_value))
        if name == "MinValueValidationError":
            return actual < e.min_value
        if name == "MaxValueValidationError":
            return actual > e.max_value
        if name == "LengthValidationError":
            return len(actual) != e.length
        if name == "MinLengthValidationError":
            return len(actual) < e.min_length
        if name == "MaxLengthValidationError":
            return len(actual) > e.max_length
        if name == "AlphabetValidationError":
            return isinstance(actual, str) and any(c not in e.alphabet for c in actual)
        if name == "SubstrValidationError":
            return e.substr not in actual
        if name == "RegexValidationError":
            return re.search(e.pattern, actual) is None
        if name == "MissingElementValidationError":
            return isinstance(actual, list) and e.index >= len(actual)
        if name == "ExtraElementValidationError":
            return isinstance(actual, list) and 0 <= e.index < len(actual)
        if name == "MissingKeyValidationError":
            return isinstance(actual, dict) and e.missing_key not in actual
        if name == "ExtraKeyValidationError":
            return isinstance(actual, dict) and e.extra_key in actual
        if name == "SchemaMismatchValidationError":
            for alt in e.expected_schemas:
                term = builder.ids.get(id(alt))
                if term is not None:
                    try:
                        if M.accepts(term, actual):
                            return False
                        continue
                    except M.ModelGap:
                        pass
                if not validate(alt, actual).has_errors():
                    return False
            return True
        if name == "InvalidUUIDVersionValidationError":
            return actual.version != 4 and e.actual_version == actual.version \
                and e.expected_version == 4
    except Exception as ex:  # noqa: BLE001
        return f"fact-check-raised:{type(ex).__name__}"
    return "unknown-error-kind"


def check_errors(t, v, errors, builder, which):
    """Yields (signature, detail) for every broken clause."""
    # one offence, one error: the same error (kind, path, parameters) twice in one result means
    # that a sibling's error was filed under this path
    seen = set()
    for e in errors:
        try:
            key = (type(e).__name__, tuple(repr(k) for k in path_keys(e.path)), repr(e))
        except Exception:  # noqa: BLE001
            continue
        if key in seen:
            yield (f"C03|{which}|same-error-reported-twice|"
                   f"{type(e).__name__.replace('ValidationError', '')}", safe_repr(e, 300))
            break
        seen.add(key)
    for e in errors:
        name = type(e).__name__.replace("ValidationError", "")
        try:
            keys = path_keys(e.path)
        except Exception as ex:  # noqa: BLE001
            yield f"C03|{which}|path-unreadable:{type(ex).__name__}|{name}", repr(e)
            continue
        depth = len(keys)
        try:
            reached = th.get(v, e.path)
            ok1 = reached is e.actual_value
        except Exception:  # noqa: BLE001
            ok1 = False
            reached = None
        if not ok1:
            yield f"C03|{which}|path-does-not-reach-actual-value|{name}|depth{depth}", repr(e)
            continue
        f = fact_holds(e, reached, builder)
        if f is not True:
            yield f"C03|{which}|stated-fact-false|{name}|{f}", repr(e)
        if name == "SchemaMismatch" and not _has_subst(t):
            # "no alternative matched" is a statement about the DECLARED alternatives (the error's
            # own list is what the validator happened to try): the declared union at this path
            # must reject the sub-value
            unions = [n for n in nodes_at(t, keys) if n[0] in ("any", "or")]
            try:
                if unions and all(M.accepts(n, reached) for n in unions):
                    yield f"C03|{which}|stated-fact-false|{name}|a-declared-alternative-accepts-the-value", repr(e)
            except M.ModelGap:
                pass
        if not _has_subst(t) and not any(declares(n, e) for n in nodes_at(t, keys)):
            yield f"C03|{which}|parameter-not-declared-on-path|{name}|depth{depth}", repr(e)
        try:
            msg = e.format(FMT)
        except Exception as ex:  # noqa: BLE001
            yield f"C03|{which}|format-raises:{type(ex).__name__}|{name}", repr(e)
            continue
        if not isinstance(msg, str) or not msg:
            yield f"C03|{which}|empty-message|{name}", repr(e)
        # rendering is pure: the same text again, and the error's path is untouched by it
        try:
            again = e.format(FMT)
            keys_after = path_keys(e.path)
        except Exception as ex:  # noqa: BLE001
            yield f"C03|{which}|second-format-raises:{type(ex).__name__}|{name}", repr(e)
            continue
        if again != msg:
            yield f"C03|{which}|message-changes-when-rendered-again|{name}", f"{msg} / {again}"
        if keys_after != keys:
            yield f"C03|{which}|rendering-changes-the-error-path|{name}", f"{keys} -> {keys_after}"
        full = list(keys)
        if name == "MissingKey":
            full.append(e.missing_key)
        elif name == "MissingElement":
            full.append(e.index)
        if full and render_path(full) not in msg:
            yield f"C03|{which}|message-does-not-name-path|{name}|depth{depth}", msg


def position_kind(t, keys):
    """list-element / typed-list / dict-value / any-alternative / alias classification."""
    out = []
    node = t
    for key in keys[:3]:
        n = node
        while n[0] in ("alias", "any") and (n[0] == "alias" or n[1]):
            out.append(n[0])
            n = n[2] if n[0] == "alias" else n[1][0]
        if n[0] == "list" and n[1] is not None:
            out.append("typed" if n[1][0] == "typed" else "elems")
            node = n[1][1] if n[1][0] == "typed" else next((x for x in n[1][1] if x is not E), n)
        elif n[0] == "dict" and n[1] is not None:
            out.append("dict")
            node = next((sub for k, _, sub in n[1] if M._keq(k, key)), n)
        else:
            break
    return "/".join(out)


def examine(t, v, builder, s, acc=None):
    found = []
    for which, getter in (("validator", lambda: validate(s, v)),
                          ("substitutor-validator", lambda: s.__accept__(SUBV, value=v))):
        try:
            errors = getter().get_errors()
        except Exception as ex:  # noqa: BLE001
            # totality is C08's business; ignore here
            if acc:
                acc.count("validate_raised")
            continue
        if acc is not None and which == "validator":
            acc.count("errors", len(errors))
            if len(errors) >= 2:
                acc.count("values_with_2plus_errors")
            for e in errors:
                try:
                    keys = path_keys(e.path)
                except Exception:  # noqa: BLE001
                    keys = []
                acc.outcome((type(e).__name__, len(keys), position_kind(t, keys)))
                acc.n["kind:" + type(e).__name__.replace("ValidationError", "")
                      + ":depth" + str(min(len(keys), 3))] += 1
        found.extend(check_errors(t, v, errors, builder, which))
        if which == "validator" and errors:
            found.extend(rendered_lines_name_paths(s, v, errors))
    return found


def _full_path(e):
    keys = list(path_keys(e.path))
    name = type(e).__name__
    if name == "MissingKeyValidationError":
        keys.append(e.missing_key)
    elif name == "MissingElementValidationError":
        keys.append(e.index)
    return keys


def rendered_lines_name_paths(s, v, errors):
    """The renderings users actually see - format_result(result) and the message carried by
    validate_or_fail's exception - have one line per error, and each names that error's path."""
    try:
        lines = format_result(validate(s, v))[1:]
    except Exception:  # noqa: BLE001  (rendering totality is C08's business)
        return
    try:
        validate_or_fail(s, v)
        raised = None
    except ValidationException as ex:
        raised = [x for x in str(ex).split("\n - ")][1:]
    except Exception:  # noqa: BLE001
        return
    for which, got in (("format_result", lines), ("validate_or_fail", raised)):
        if got is None or len(got) != len(errors):
            continue                      # the line count is C08's clause
        for e, line in zip(errors, got):
            try:
                full = _full_path(e)
            except Exception:  # noqa: BLE001
                continue
            if full and render_path(full) not in line:
                name = type(e).__name__.replace("ValidationError", "")
                yield (f"C03|{which}|line-does-not-name-path|{name}|depth{len(full)}",
                       line[:120] + " ... " + line[-80:])
                return


def merge_check(t, s, vals, builder):
    """Results of several validations merged into one report through the public
    ValidationResult.add_errors(): every original result must still hold exactly its own errors
    afterwards, and they must still be true of its own value (errors of one value never leak into
    the result of another)."""
    from d42.validation import ValidationResult
    held = []
    report = ValidationResult()
    for v in vals:
        try:
            r = validate(s, v)
        except Exception:  # noqa: BLE001
            continue
        held.append((v, r, list(r.get_errors())))
        report.add_errors(r.get_errors())
    found = []
    for v, r, before in held:
        now = r.get_errors()
        if len(now) != len(before) or any(a is not b for a, b in zip(now, before)):
            found.append(("C03|validator|result-holds-other-errors-after-merging-into-a-report",
                          f"value={src(v)} had {len(before)} error(s), now {len(now)}"))
            found.extend(check_errors(t, v, now, builder, "validator-after-merge"))
            break
    return found


def worker(shard, nshards, tier, seed):
    acc = Acc()
    U = list(universe(tier)) + enrich(tier)
    for i, t in shard_items(U, shard, nshards):
        b = Builder(track=True)
        try:
            s = b.build(t)
        except Exception:  # noqa: BLE001
            acc.count("build_failed")
            continue
        acc.count("schemas")
        vals, capped = values_for(t, tier)
        if capped:
            acc.cap("value_universe_thinned")
        for v in vals:
            acc.count("pairs")
            for sig, detail in examine(t, v, b, s, acc):
                acc.violation(sig, {"term": src(t), "term_show": show(t), "value": src(v),
                                    "detail": detail})
        mvals = [v for v in vals[:24]]
        acc.count("merged_reports")
        for sig, detail in merge_check(t, s, mvals, b):
            acc.violation(sig, {"term": src(t), "term_show": show(t), "merge_values": src(mvals),
                                "detail": detail})
        if i % 131 == 0:
            acc.sample({"schema": show(t), "values": len(vals)})
    return acc


def run(tier, seed):
    acc = parallel(worker, tier, seed, warm_pass=True)
    kinds = sorted(k for k in acc.n if k.startswith("kind:"))
    cov = {
        "states": acc.n["pairs"],
        "transitions": acc.n["errors"],
        "traces_validated_against_impl": acc.n["pairs"] * 2,
        "evaluations": acc.n["errors"],
        "distinct_nontrivial": len(acc.outcomes),
        "rule": "every error of every (term, value) pair under Validator and SubstitutorValidator; "
                "distinct = (error kind, path depth, position kinds on the path) classes observed",
        "exhaustive": not acc.caps,
        "error_kinds_by_depth": {k[5:]: acc.n[k] for k in kinds},
        "error_kinds_seen": len({k.split(":")[1] for k in kinds}),
        "bounds": {"tier": tier, "value_limit_per_schema": VLIMIT[tier]},
    }
    return acc, cov, ["completeness, order and wording of the error list are not demanded",
                      "SchemaMismatch alternatives are judged by the reference model via the "
                      "builder's id->term table"]


def replay(case):
    t, v = unsrc(case["term"]), unsrc(case.get("value", "None"))
    b = Builder(track=True)
    s = b.build(t)
    if "merge_values" in case:
        return [sig for sig, _ in merge_check(t, s, unsrc(case["merge_values"]), b)]
    return [sig for sig, _ in examine(t, v, b, s)]
