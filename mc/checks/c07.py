"""C07 - schemas are immutable values and all operations on them are pure (E3 history explorer).

All sequences of public operations (incl. failing refinements and caller-side mutations of
containers that were passed in or handed out) up to a depth, each replayed from a freshly built
pool.  After the last step of every sequence (every prefix is itself an explored sequence):
every schema ever pooled still has the snapshot it entered with; arguments are unchanged; and a
process-wide memo requires equal (event, operands) to give equal outcomes in every history.
"""
import collections
import copy
import itertools

from d42 import fake, optional, represent, schema, substitute, validate, validate_or_fail
from d42.declaration import Schema
from d42.declaration.types import TypeAliasSchema
from d42.utils import from_native, make_required
from d42.validation import ValidationResult

from .. import e2
from ..codec import src
from ..common import safe_repr
from ..runner import Acc, parallel
from ..terms import fp

DEPTH = {"quick": (2, 3), "thorough": (2, 3)}   # (all sequences, deepest level; see sequences())
PROBES = [None, 0, 7, "a", "ab", [0], [0, "a"], {"a": 0}, {"a": 0, "b": "a"}, [], {}, 1.5]
VALS = {"v_int": 0, "v_list": [0, "a"], "v_dict": {"a": 0}, "v_bad": [None], "v_short": [0],
        # values that are == (and hash alike) but of different kinds: forced collisions for any
        # cache or table keyed by value
        "v_zero": 0, "v_fzero": 0.0, "v_false": False, "v_one_list": [1], "v_fone_list": [1.0],
        "v_true_list": [True], "v_str": "a", "v_bytes": b"a",
        # equal AND of one kind, yet not the same value: negative zero
        "v_nzero": -0.0, "v_nzero_list": [-0.0]}
# dict subclasses whose lookups of absent keys answer (and, for defaultdict, insert): a fresh one
# per use, because a mutated argument must not leak into the next history
MISSING = {"v_dd_int": lambda: collections.defaultdict(int, {"a": 0}),
           "v_dd_list": lambda: collections.defaultdict(list),
           "v_counter": lambda: collections.Counter({"a": 0})}
COLLIDING = ("v_zero", "v_fzero", "v_false", "v_str", "v_bytes", "v_nzero")
COLLIDING_LISTS = ("v_one_list", "v_fone_list", "v_true_list", "v_nzero_list")
NPOOL = 6   # members with the full event set; member 6 (a regex str) has three events


class _Opaque:
    def __repr__(self):
        return "<opaque>"


OPAQUE = _Opaque()


class State:
    def __init__(self):
        self.L0 = [schema.int, schema.str("a")]
        self.D0 = {"a": schema.int, optional("b"): schema.str}
        self.V0 = [0, {"a": [1]}]
        self.E0 = []              # a caller-owned empty list (nothing in it to convert or copy)
        self.pool = [schema.int.min(0), schema.str.len(1, 2), schema.list(self.L0),
                     schema.dict(self.D0), schema.any(schema.int, schema.str),
                     schema.list(schema.int), schema.str.regex("\\d\\w[^a]"),
                     schema.dict({"a": schema.int, ...: ...}), TypeAliasSchema()]
        self.names = ["int.min(0)", "str.len(1,2)", "list(L0)", "dict(D0)", "any(int,str)", "list(int)",
                      "str.regex", "dict(a, ...)", "bare TypeAliasSchema()"]
        self.entry = []           # snapshot of each pooled schema when it entered
        self.G = None             # last container returned by fake
        self.R = None             # last ValidationResult
        self.K = None             # last list handed out by iteration


def snapshot(s, rng):
    verdicts = []
    for v in PROBES:
        try:
            verdicts.append(not validate(s, v).has_errors())
        except Exception as e:  # noqa: BLE001
            verdicts.append(type(e).__name__)
    out = e2.run_once(rng, lambda: fake(s), ())
    gen = src(out[1]) if out[0] == "ok" else out[1]
    return (fp(s), safe_repr(s, 2000), tuple(verdicts), gen)


REFINE_OK = {0: lambda s: s.max(7), 1: lambda s: s.alphabet("ab"), 2: lambda s: s.len(2),
             3: lambda s: make_required(s), 5: lambda s: s.len(1, 3)}
REFINE_FAIL = {0: lambda s: s.min(1), 1: lambda s: s.len(3), 2: lambda s: s.len("x"),
               3: lambda s: s({}), 4: lambda s: s(schema.none), 5: lambda s: s.len(None)}


def events():
    ev = []
    for i in range(NPOOL):
        if i in REFINE_OK:
            ev.append(("refine_ok", i))
        ev.append(("refine_fail", i))
        ev.append(("repr", i))
        ev.append(("gen", i))
        for vn in ("v_int", "v_list", "v_dict"):
            ev.append(("validate", i, vn))
            ev.append(("subst", i, vn))
    ev += [("validate", 2, "V0"), ("validate", 5, "v_bad"), ("validate_or_fail", 0, "v_int"),
           ("validate_or_fail", 3, "v_bad"), ("subst", 5, "V0"), ("subst", 2, "V0"),
           ("subst", 3, "v_bad"), ("subst", 4, "V0"),
           ("add", 3, 3), ("add", 3, "last"), ("or", 0, 1), ("or", 2, 4), ("or", "last", 0),
           ("mkreq", 3, None), ("mkreq", 3, ("b",)), ("mkreq_fail", 3), ("getitem", 3, "a"),
           ("getitem_fail", 3), ("iter", 3), ("iter", 4), ("keys", 3), ("from_native", "V0"),
           ("eq", 2, 5), ("eq", 3, 3), ("eq", 0, "last"),
           ("repr", "last"), ("gen", "last"), ("validate", "last", "v_list"),
           ("validate", "last", "V0"), ("subst", "last", "v_dict"), ("refine_fail_last",)]
    ev += [("from_native_v", vn) for vn in COLLIDING]
    for vn in MISSING:
        ev += [("validate", 3, vn), ("subst", 3, vn), ("eq_value", 3, vn)]
    ev += [("repr", 6), ("gen", 6), ("validate", 6, "v_str"), ("second_instances",),
           ("subst", 5, "E0"), ("subst_untyped_E0",), ("from_native_E0",),
           # rarely used parameters and accessors: represent(..., indent=n), a list declared from
           # the caller's EMPTY list, rendering a held validation result
           ("repr_indent", 2), ("repr_indent", 3), ("repr_indent", "last"), ("declare_list_E0",),
           ("validate", 2, "v_short"), ("format_R",)]
    # a conversion that FAILS part-way on the caller's container (an unconvertible member at the
    # top / inside the nested dict), after which the caller removes the member again
    ev += [("from_native_fail", "top"), ("from_native_fail", "nested"), ("subst_untyped_fail", "top"),
           ("subst_untyped_fail", "nested")]
    # member 7, a relaxed dict: as either operand of + (with itself, with the closed dict), and
    # the other dict operations
    ev += [("add", 7, 7), ("add", 7, 3), ("add", 3, 7), ("validate", 7, "v_dict"), ("subst", 7, "v_dict"),
           ("repr", 7), ("mkreq", 7, None), ("getitem", 7, "a"), ("iter", 7), ("gen", 7)]
    # member 8, an alias declared without name or type (the class itself is public): read-only use
    ev += [("repr", 8), ("validate", 8, "v_int"), ("gen", 8), ("eq", 8, 8), ("subst", 8, "v_int")]
    # make_required with the keys given as a SET the caller goes on holding
    ev += [("mkreq_set", 3, ("a", "b")), ("mkreq_set", 3, ("a",)), ("mkreq_set", 7, ("a",))]
    # augmented assignment: `x = d; x += other` / `x |= other` rebinds x, d stays what it was
    ev += [("iadd", 3, 3), ("iadd", 3, 7), ("iadd", 7, 3), ("ior", 0, 1), ("ior", 4, 0)]
    ev += [("subst_untyped", vn) for vn in COLLIDING_LISTS]
    ev += [("subst_untyped_dict", vn) for vn in COLLIDING[:3]]
    muts = [("mut", "E0.append"), ("mut", "L0.append"), ("mut", "L0.clear"), ("mut", "L0.setitem"), ("mut", "D0.set"),
            ("mut", "D0.del"), ("mut", "V0.append"), ("mut", "V0.nested"), ("mut", "G"),
            ("mut", "R"), ("mut", "K")]
    return ev + muts


def is_special(e):
    return e[0] == "mut" or "fail" in e[0] or (e[0] == "subst" and e[2] in ("v_bad",))


def operand(st, x):
    if x == "last":
        return st.pool[-1]
    return st.pool[x]


def value(st, name):
    if name in MISSING:
        return MISSING[name]()
    if name == "E0":
        return st.E0
    return st.V0 if name == "V0" else VALS[name]


def second_instances():
    """Other, differently configured instances of the visitor classes are created and used
    (public constructors and arguments); what they produce is not looked at."""
    from d42.generation import Generator, Random, RegexGenerator
    from d42.representation import Representor
    from d42.validation import Validator
    from th import PathHolder
    rg = RegexGenerator(Random(), alphabet={"digits": "0123456789abcdef", "word": "ab-", "letters": "ab~"},
                        max_repeat=3)
    g = Generator(Random(), rg)
    probe = schema.dict({"a": schema.str.regex("\\d\\w+[^a]"), optional("b"): schema.list(schema.int)})
    for visitor, kw in ((g, {}), (Representor("s", indent=2), {}),
                        (Validator(path_holder_factory=lambda: PathHolder("root")), {"value": {"a": 1}})):
        try:
            probe.__accept__(visitor, **kw)
        except Exception:  # noqa: BLE001
            pass


def step(st, e, rng):
    """Executes one event.  Returns (outcome, [(argname, before_src, obj)...])."""
    k = e[0]
    args = []

    def arg(name, obj):
        args.append((name, src(obj), obj))
        return obj

    try:
        if k == "refine_ok":
            return REFINE_OK[e[1]](st.pool[e[1]]), args
        if k == "refine_fail":
            return REFINE_FAIL[e[1]](st.pool[e[1]]), args
        if k == "refine_fail_last":
            s = st.pool[-1]
            return s(OPAQUE) if callable(s) else s.nope, args
        if k == "repr":
            s = operand(st, e[1])
            return (repr(s), represent(s)), args
        if k == "gen":
            out = e2.run_once(rng, lambda: fake(operand(st, e[1])), ())
            if out[0] == "ok" and isinstance(out[1], (list, dict)):
                st.G = out[1]
            return ("gen", out[0], src(out[1]) if out[0] == "ok" else out[1:]), args
        if k == "validate":
            v = arg(e[2], value(st, e[2]))
            r = validate(operand(st, e[1]), v)
            st.R = r
            return r, args
        if k == "validate_or_fail":
            v = arg(e[2], value(st, e[2]))
            return validate_or_fail(operand(st, e[1]), v), args
        if k == "subst":
            v = arg(e[2], value(st, e[2]))
            return substitute(operand(st, e[1]), v), args
        if k == "iadd":
            x = operand(st, e[1])
            x += operand(st, e[2])
            return x, args
        if k == "ior":
            x = operand(st, e[1])
            x |= operand(st, e[2])
            return x, args
        if k == "add":
            return operand(st, e[1]) + operand(st, e[2]), args
        if k == "or":
            return operand(st, e[1]) | operand(st, e[2]), args
        if k == "mkreq":
            keys = arg("keys", list(e[2])) if e[2] is not None else None
            return (make_required(st.pool[e[1]]) if keys is None
                    else make_required(st.pool[e[1]], keys)), args
        if k == "mkreq_set":
            keys = arg("keys", set(e[2]))
            return make_required(st.pool[e[1]], keys), args
        if k == "mkreq_fail":
            return make_required(st.pool[e[1]], ["zz"]), args
        if k == "getitem":
            return st.pool[e[1]][e[2]], args
        if k == "getitem_fail":
            return st.pool[e[1]]["zz"], args
        if k == "iter":
            st.K = list(st.pool[e[1]])
            return ("iter", [safe_repr(x, 80) for x in st.K]), args
        if k == "keys":
            st.K = list(st.pool[e[1]].keys())
            return ("keys", [safe_repr(x, 80) for x in st.K]), args
        if k == "from_native":
            v = arg("V0", st.V0)
            return from_native(v), args
        if k == "from_native_v":
            return from_native(arg(e[1], VALS[e[1]])), args
        if k in ("from_native_fail", "subst_untyped_fail"):
            v = arg("V0", st.V0)
            inner = v[1] if len(v) > 1 and isinstance(v[1], dict) else None
            try:
                if e[1] == "nested" and inner is not None:
                    inner["zz"] = OPAQUE
                else:
                    v.append(OPAQUE)
                try:
                    o = from_native(v) if k == "from_native_fail" else substitute(schema.list, v)
                    o = ("no-error", safe_repr(o, 200))
                except Exception as ex:  # noqa: BLE001
                    o = ("EXC", type(ex).__name__)
            finally:
                if e[1] == "nested" and inner is not None:
                    inner.pop("zz", None)
                else:
                    v.pop()
            return o, args
        if k == "subst_untyped":
            return substitute(schema.list, arg(e[1], VALS[e[1]])), args
        if k == "subst_untyped_dict":
            return substitute(schema.dict, arg(e[1], {"n": VALS[e[1]]})), args
        if k == "repr_indent":
            s = operand(st, e[1])
            return ("repr_indent", represent(s, indent=2)), args
        if k == "declare_list_E0":
            return schema.list(arg("E0", st.E0)), args
        if k == "format_R":
            if st.R is None:
                return ("format_R", None), args
            errs = arg("R.errors", st.R.get_errors())
            from d42.validation import format_result
            first = format_result(st.R)
            again = format_result(st.R)
            return ("format_R", "stable" if first == again else ("unstable", first, again), len(errs)), args
        if k == "second_instances":
            second_instances()
            return None, args
        if k == "subst_untyped_E0":
            return substitute(schema.list, arg("E0", st.E0)), args
        if k == "from_native_E0":
            return from_native(arg("E0", st.E0)), args
        if k == "eq_value":
            v = arg(e[2], value(st, e[2]))
            a = operand(st, e[1])
            return ("eq_value", a == v, a != v), args
        if k == "eq":
            a, b = operand(st, e[1]), operand(st, e[2])
            return ("eq", a == b, a != b), args
        if k == "mut":
            m = e[1]
            if m == "E0.append":
                st.E0.append(7)
            elif m == "L0.append":
                st.L0.append(schema.none)
            elif m == "L0.clear":
                st.L0.clear()
            elif m == "L0.setitem":
                if st.L0:
                    st.L0[0] = schema.bool
            elif m == "D0.set":
                st.D0["zz"] = schema.none
            elif m == "D0.del":
                st.D0.pop("a", None)
            elif m == "V0.append":
                st.V0.append(99)
            elif m == "V0.nested":
                if len(st.V0) > 1 and isinstance(st.V0[1], dict):
                    st.V0[1].setdefault("a", []).append(5)
            elif m == "G" and st.G is not None:
                if isinstance(st.G, list):
                    st.G.append("mutated")
                else:
                    st.G["mutated"] = 1
            elif m == "R" and st.R is not None:
                st.R.get_errors().clear()
                st.R.get_errors().append("mutated")
            elif m == "K" and st.K is not None:
                st.K.clear()
            return None, args
    except Exception as ex:  # noqa: BLE001
        return ("EXC", type(ex).__name__, str(ex)[:160]), args
    return ("unknown-event", e), args


def out_key(o, rng):
    if isinstance(o, Schema):
        return ("schema",) + snapshot(o, rng)
    if isinstance(o, ValidationResult):
        return ("result", safe_repr(o.get_errors(), 1500))
    return ("plain", safe_repr(o, 1500))


MEMO = {}
ENTRY0 = None


def run_history(seq, rng, acc=None):
    """Runs one sequence from a fresh pool; returns list of violation (sig, detail)."""
    found = []
    st = State()
    global ENTRY0
    if ENTRY0 is None:
        ENTRY0 = [snapshot(s, rng) for s in st.pool]
    # fresh pools are compared by props only here and fully at the end of the history: no
    # visitor may touch a pool member before the history starts, otherwise state that an operation
    # caches on the instance (and a later operation copies) would be present in every history
    st.entry = list(ENTRY0)
    for s0, e0 in zip(st.pool, ENTRY0):
        if fp(s0) != e0[0]:
            found.append(("C07|freshly-built-schema-differs-from-first-build", safe_repr(s0)))
    names = list(st.names)
    for pos, e in enumerate(seq):
        last_snap = st.entry[len(st.pool) - 1]
        o, args = step(st, e, rng)
        for name, before, obj in args:
            if src(obj) != before:
                found.append((f"C07|argument-mutated|{e[0]}|{name}", f"{before} -> {src(obj)}"))
        if e[0] != "mut":
            # determinism memo: same event on equal operand snapshots / values => same outcome
            opsnaps = []
            for x in e[1:]:
                if x == "last":
                    opsnaps.append(last_snap)
                elif isinstance(x, int) and not isinstance(x, bool):
                    opsnaps.append(st.entry[x])
            if e[0].endswith("_last"):
                opsnaps.append(last_snap)
            key = (e, tuple(opsnaps), tuple(b for _, b, _ in args))
            ok = out_key(o, rng)
            prev = MEMO.get(key)
            if prev is None:
                MEMO[key] = (ok, seq)
            elif prev[0] != ok:
                # rank: histories in which an earlier event of the SAME history can explain the
                # difference replay standalone; a first-event mismatch was caused by an earlier
                # history of this long-lived process
                found.append((f"C07|outcome-depends-on-history|{e[0]}",
                              {"other_history": [list(x) for x in prev[1]],
                               "first": f"{prev[0]!r:.300}", "now": f"{ok!r:.300}"},
                              (pos == 0, len(seq))))
        if isinstance(o, Schema):
            st.pool.append(o)
            names.append(f"result-of-{e[0]}")
            st.entry.append(snapshot(o, rng))
    # invariant on every pooled schema (checked after the last step; prefixes are explored too)
    lastev = seq[-1] if seq else ("none",)
    lastname = lastev[0] + (":" + lastev[1] if lastev[0] == "mut" else "")
    for idx, s in enumerate(st.pool):
        now = snapshot(s, rng)
        if now != st.entry[idx]:
            what = [n for n, a, b in zip(("props", "repr", "verdicts", "generated"), now, st.entry[idx])
                    if a != b]
            found.append((f"C07|schema-changed:{'+'.join(what)}|{names[idx]}|after:{lastname}",
                          f"{st.entry[idx][1]:.200} -> {now[1]:.200}"))
    if acc is not None:
        acc.count("steps", len(seq))
        acc.count("pooled_schemas_checked", len(st.pool))
    return found


def core_events():
    """Reduced alphabet for the deepest level: one event per operation kind and operand shape."""
    keep = []
    for e in events():
        if e[0] in ("from_native_v", "subst_untyped", "subst_untyped_dict", "repr_indent", "format_R",
                    "second_instances", "eq_value", "subst_untyped_fail") or e == ("from_native_fail", "nested"):
            continue
        if len(e) > 2 and e[2] in MISSING:
            continue
        if len(e) > 1 and e[1] == 6:
            continue
        if len(e) > 1 and e[1] == 7 and e[0] != "add":
            continue
        if len(e) > 1 and e[1] == 8 and e[0] != "repr":
            continue
        if e[0] in ("validate", "subst") and isinstance(e[1], int) and e[1] in (0, 1, 4) \
                and e[2] != "v_list":
            continue
        if e[0] in ("repr", "gen", "refine_fail") and e[1] in (0, 1, 4):
            continue
        keep.append(e)
    return keep


class Zygote:
    """A helper forked from the worker BEFORE it has run any history.  On request it forks a
    grandchild that replays one history from that pristine state and reports the signatures, so
    a memo mismatch can be classified on the spot as 'explained by this history alone'
    (replayable standalone) or 'caused by an earlier history of this long-lived process'."""

    def __init__(self, seed):
        import json
        import os
        self.req_r, self.req_w = os.pipe()
        self.res_r, self.res_w = os.pipe()
        self.pid = os.fork()
        if self.pid == 0:
            try:
                os.close(self.req_w)
                os.close(self.res_r)
                fin = os.fdopen(self.req_r, "r")
                for line in fin:
                    seq = _seq(json.loads(line))
                    cpid = os.fork()
                    if cpid == 0:
                        try:
                            rng = e2.Scripted(seed)
                            with e2.installed(rng):
                                sigs = [item[0] for item in run_history(seq, rng)]
                        except Exception as ex:  # noqa: BLE001
                            sigs = ["zygote-error:" + type(ex).__name__]
                        os.write(self.res_w, (json.dumps(sigs) + "\n").encode())
                        os._exit(0)
                    os.waitpid(cpid, 0)
            finally:
                os._exit(0)
        os.close(self.req_r)
        os.close(self.res_w)
        self.fout = os.fdopen(self.req_w, "w")
        self.fin = os.fdopen(self.res_r, "r")

    def ask(self, seq):
        import json
        self.fout.write(json.dumps([list(e) for e in seq]) + "\n")
        self.fout.flush()
        return json.loads(self.fin.readline() or "[]")


ZYGOTE = None
ASKED = {}


MINI = [("repr", 2), ("repr", 3), ("gen", 3), ("validate", 3, "v_dict"), ("subst", 3, "v_dict"),
        ("add", 3, 3), ("or", 2, 4), ("mkreq", 3, None), ("refine_ok", 3), ("refine_fail", 3),
        ("iter", 3), ("from_native", "V0"), ("eq", 3, 3), ("subst_untyped", "v_one_list"),
        ("from_native_v", "v_fzero"), ("from_native_v", "v_false"), ("second_instances",),
        ("subst", 5, "E0"), ("refine_fail_last",), ("from_native_fail", "top")]


def sequences(tier):
    """quick: every sequence up to depth 2; depth 3 over the core alphabet if it contains a
    mutation / failing event.  thorough: EVERY sequence up to depth 3 over the full alphabet, and
    depth 4 over a mini alphabet (one event per operation kind on the caller-owned list / dict
    members, the colliding from_native values, second instances, every mutation) when it
    contains a mutation / failing event.  Depth 4 over the full alphabet (2.7e8) is out of reach."""
    EV = events()
    CORE = core_events()
    core_set = set(CORE)
    for d in (1, 2):
        for seq in itertools.product(EV, repeat=d):
            yield seq
    if tier != "thorough":
        for seq in itertools.product(CORE, repeat=3):
            if any(is_special(e) for e in seq):
                yield seq
        return
    for seq in itertools.product(EV, repeat=3):
        yield seq
    mini = [e for e in MINI if e in set(EV)] + [e for e in EV if e[0] == "mut"]
    for seq in itertools.product(mini, repeat=4):
        if any(is_special(e) for e in seq):
            yield seq


def worker(shard, nshards, tier, seed):
    acc = Acc()
    rng = e2.Scripted(seed)
    global ZYGOTE
    if ZYGOTE is None:
        ZYGOTE = Zygote(seed)          # forked while this process is still pristine
    if not MEMO:
        # a shard re-run in a fresh interpreter (context replay): same references as the main run
        MEMO.update(pristine_references(seed))
    with e2.installed(rng):
        e2.self_test(rng)
        for i, seq in enumerate(sequences(tier)):
            if i % nshards != shard:
                continue
            acc.count("histories")
            if any(is_special(e) for e in seq):
                acc.count("histories_with_mutation_or_failure")
            for item in run_history(seq, rng, acc):
                sig, detail = item[0], item[1]
                rank = item[2] if len(item) > 2 else (False, len(seq))
                if len(item) > 2 and not item[2][0] and ASKED.get(sig, 0) < 400:
                    # does this history alone, from a pristine process, show the same mismatch?
                    ASKED[sig] = ASKED.get(sig, 0) + 1
                    rank = (0 if sig in ZYGOTE.ask(seq) else 1,) + tuple(rank)
                elif len(item) > 2:
                    rank = (1,) + tuple(rank)
                else:
                    rank = (0,) + tuple(rank)
                acc.violation(sig, {"history": [list(e) for e in seq], "detail": detail, "seed": seed},
                              rank)
            acc.outcome(hash(seq))
            if i % 50021 == 0:
                acc.sample({"history": [list(e) for e in seq]})
    acc.count("memo_entries", len(MEMO))
    return acc


def _ref_task(args):
    e, seed = args
    rng = e2.Scripted(seed)
    with e2.installed(rng):
        MEMO.clear()
        run_history((e,), rng)
        return dict(MEMO)


def pristine_references(seed):
    """Outcome of every single event from the initial state, each in its own freshly forked
    process (the parent has executed no d42 operation yet).  Seeding the memo with them makes the
    'reached from elsewhere' comparison immune to caches that stay wrong once populated."""
    import multiprocessing
    ctx = multiprocessing.get_context("fork")
    with ctx.Pool(16, maxtasksperchild=1) as pool:
        results = pool.map(_ref_task, [(e, seed) for e in events()], chunksize=1)
    merged = {}
    for r in results:
        merged.update(r)
    return merged


def run(tier, seed):
    MEMO.update(pristine_references(seed))
    nref = len(MEMO)
    acc = parallel(worker, tier, seed, nshards=16)
    acc.n["pristine_references"] = nref
    cov = {
        "states": acc.n["pooled_schemas_checked"],
        "transitions": acc.n["steps"],
        "traces_validated_against_impl": acc.n["histories"],
        "evaluations": acc.n["histories"],
        "distinct_nontrivial": acc.n["histories_with_mutation_or_failure"],
        "rule": (f"all sequences over {len(events())} events up to depth 2, plus depth 3 over the "
                 f"{len(core_events())}-event core alphabet when they contain a caller mutation or a "
                 "failing operation" if tier != "thorough" else
                 f"all sequences over {len(events())} events up to depth 3, plus depth 4 over a mini "
                 "alphabet when they contain a caller mutation or a failing operation")
                + "; each replayed from a fresh pool; non-trivial = contains a mutation/failing event",
        "exhaustive": True,
        "bounds": {"tier": tier, "events": len(events()), "core_events": len(core_events()), "depth_all": DEPTH[tier][0],
                   "depth_special": DEPTH[tier][1], "memo_entries": acc.n["memo_entries"],
                   "pristine_single_event_references": acc.n["pristine_references"]},
    }
    return acc, cov, ["no state de-duplication: hidden state is what is hunted",
                      "writes into schema.props.* internals by the caller are not part of the alphabet",
                      "generation uses the scripted default RNG answers"]


def _seq(data):
    return tuple(tuple(tuple(x) if isinstance(x, list) else x for x in e) for e in data)


def _replay_inner(case):
    rng = e2.Scripted(case.get("seed", 0))
    MEMO.clear()
    MEMO.update(pristine_references(case.get("seed", 0)))
    with e2.installed(rng):
        global ENTRY0
        ENTRY0 = None
        d = case.get("detail")
        if isinstance(d, dict) and "other_history" in d and len(d["other_history"]) > 1:
            run_history(_seq(d["other_history"]), rng)
        return [item[0] for item in run_history(_seq(case["history"]), rng)]


def replay(case):
    """Replays in a fresh interpreter: hidden module state is what is being hunted, so the
    replay must not inherit whatever earlier histories left behind in this process."""
    import json
    import os
    import subprocess
    import sys
    p = subprocess.run([sys.executable, "-W", "ignore", "-m", "mc.checks.c07"], input=json.dumps(case),
                       capture_output=True, text=True, cwd=os.path.dirname(os.path.dirname(
                           os.path.dirname(os.path.abspath(__file__)))), timeout=600)
    if p.returncode != 0:
        return "replay subprocess failed: " + p.stderr[-300:]
    return json.loads(p.stdout)


if __name__ == "__main__":
    import json
    import sys
    print(json.dumps(_replay_inner(json.loads(sys.stdin.read()))))
