"""C12 - see _subst_common (one enumeration of substitutions, three oracles)."""
from . import _subst_common as C


def run(tier, seed):
    return C.run("C12", tier, seed)


def replay(case):
    return C.replay("C12", case)
