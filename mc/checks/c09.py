"""C09 - regex generation yields a full match or refuses loudly (E5 regex programs + E2).

Patterns are enumerated from a small grammar (atoms, classes, groups, alternation, greedy and
lazy quantifiers incl. open-ended ones and the shortcut value 44, anchors at the ends,
concatenation, nesting).  Single atoms are run under EVERY index of every draw; compositions
under all RNG scripts with <= D deviations; three generator configurations (max_repeat).
Unsupported constructs are embedded at every position of every skeleton: exception or match.
"""
import itertools
import re

from d42 import fake as d42_fake, validate, schema
from d42.generation import Random, RegexGenerator

import signal

from .. import e2
from .. import rxmodel
from ..runner import Acc, parallel


class _Timeout(Exception):
    pass


def _alarm(*a):
    raise _Timeout()


def matches(p, rx, s, acc):
    """Full-match verdict: the polynomial set-based model where it applies (cross-checked against
    re.fullmatch on short strings), otherwise re.fullmatch under a 2 s alarm (None = undecided)."""
    try:
        m = rxmodel.fullmatch(p, s)
    except rxmodel.Unsupported:
        m = None
    if m is not None:
        if len(s) <= 10:
            if (rx.fullmatch(s) is not None) != m:
                acc.notes.append(f"WORKER-CRASH oracle disagreement rxmodel={m} re={not m} {p!r} {s!r}")
        return m
    old = signal.signal(signal.SIGALRM, _alarm)
    signal.alarm(2)
    try:
        return rx.fullmatch(s) is not None
    except _Timeout:
        acc.cap("oracle_timeout")
        return None
    finally:
        signal.alarm(0)
        signal.signal(signal.SIGALRM, old)

ATOMS = ["a", r"\.", r"\x41", ".", r"\d", r"\w", "[ab]", "[a-c]", r"[\w-]", "[^a]", "[^ab]", r"[^\d]",
         "[^a-c]", r"[a\d]", r"[^\w]",
         # negated classes mixing literal / range / category members in both orders
         r"[^a\d]", r"[^\da]", r"[^a-c\d]", r"[^\d_a-c]", r"[^ \w]", r"[a-c\d_]",
         # two DIFFERENT single-character negations in one pattern (and next to a class)
         "[^a][^b]", "[^b]x[^a]", "[^a][^ab][^b]", "[^a]+[^b]",
         # negated ranges that reach or pass the last letter of the generator's alphabet ('~')
         r"[^a-~]", r"[^!-\xff]", r"[^#-\u04ff]",
         # negated ranges wider than the alphabet whose upper end is a printable character
         r"[^\x00-z]", r"[^\t-y_]", r"[^\x00-A]",
         # ranges inside / across the surrogate block (lone surrogates are strs like any other)
         "[\ud800-\udbff]", "[\udc00-\udfff]", "[\ud7fe-\ud801]", "[\udffe-\ue001]"]
QUANTS = ["", "?", "*", "+", "{2}", "{1,2}", "{2,}", "{33,}", "{0,44}", "*?", "+?", "??", "{1,2}?",
          "{0}", "{3,}?", "{33,}?", "{33,35}?"]
UNSUPPORTED = [r"(?=a)", r"(?!b)", r"(?<=a)", r"(?<!b)", r"\s", r"\S", r"\D", r"\W", r"[\s]", r"[^\D]",
               r"(?>a)", r"a*+", r"a++", r"(a)\1", r"(?P<n>a)(?P=n)", r"(a)?(?(1)b|c)", r"a?+", r"[\S]"]
SKELETONS = ["%s", "a%s", "%sa", "(%s|a)", "(?:a%s)+", "a|%s", "(a%s)?b", "^%s$", "[ab]%s{2}"]
MAX_REPEATS = (32, 2, 50)
BOUNDS = {"quick": {"D": 2, "D_other": 1, "full_cap": 200, "max_execs": 600},
          "thorough": {"D": 3, "D_other": 1, "full_cap": 1000, "max_execs": 1500}}


def groups(x):
    return ["(%s)" % x, "(?:%s)" % x, "(?P<n>%s)" % x]


def supported_patterns(tier):
    T = tier == "thorough"
    pats = []
    for a in ATOMS:
        for q in QUANTS:
            pats.append(a + q)
    A8 = ATOMS[:8] if not T else ATOMS[:11]
    Q7 = QUANTS[1:9]
    for a, b in itertools.product(A8, repeat=2):
        pats.append(a + b)
        pats.append(a + "|" + b)
        for q in Q7:
            pats.append("(%s|%s)%s" % (a, b, q))
            pats.append("(?:%s%s)%s" % (a, b, q))
        pats.append("(?P<n>%s|%s)+" % (a, b))
        pats.append("(%s)(%s)" % (a, b))
    # quantified items concatenated (2, thorough 3)
    items = [a + q for a in ("a", r"\d", "[ab]", "[^a]", ".") for q in ("", "?", "+", "{1,2}", "{2,}")]
    for x, y in itertools.product(items, repeat=2):
        pats.append(x + y)
    if T:
        for x, y, z in itertools.product(items[::2], repeat=3):
            pats.append(x + y + z)
    # nesting depth 2 (thorough 3)
    inner = ["(a|b)", "(?:a[ab])", r"(\d+)", "(a|[^a]?)", "(?:a{1,2}|b)"]
    for g in inner:
        for q in ("", "?", "*", "+", "{2}", "{1,2}", "{2,}", "{0,44}"):
            pats.append("(?:%s%s|c)%s" % (g, "", q))
            pats.append("(%s%s)" % (g, q))
            pats.append("x%s%s" % (g, q))
            if T:
                pats.append("((?:%s%s)+|\\d)%s" % (g, q, "?"))
                pats.append("(?P<n>%s|(?:%s%s))" % (g, g, q))
    seen, out = set(), []
    for p in pats:
        if p not in seen:
            seen.add(p)
            out.append(p)
    base = list(out)
    step = 1 if T else 3
    for p in base[::step]:
        out.append("^" + p + "$")
    for p in base[::step * 5]:
        out.append("\\A" + p + "\\Z")
        out.append("^(" + p + ")$")
    return out


# patterns with a single kind of metacharacter (what a hand-written "is this a plain literal?"
# test is most likely to get wrong), and plain literals
LITERALISH = ["[01]{2048}", "(ab){600}", "x{1025,}", "(\\w{20},){60}", "a{1024}", "a{1025}", "ab", "ab{2}c", "0{3}", "-{2,4}", "id=7{2}5{,2}", "a b", "a-b_c", "a.b", "a|b", "ab?", "ab*",
              "ab+", "a[b]c", "a(b)c", "a\\.b", "a\\{2\\}", "^ab", "ab$", "a{2", "a}b", "{a}", "a{,}b", "a,b",
              "\\d+\\$", "a\\$", "end\\\\$", "\\^a", "a\\^b", "\\$\\$", "a\\\\", "\\Aa\\$", "[$]$", "a\\Z", "x\\.y\\?",
              "é{2}", "a#b", "a b{2}", "x~y", "a=b&c", "a/b:c", "<a>", "\"a\"", "a'b", "a%sb", "a{0}b"]


def unsupported_patterns():
    out = []
    for u in UNSUPPORTED:
        for sk in SKELETONS:
            p = sk % u
            try:
                re.compile(p)
            except (re.error, OverflowError):
                continue
            out.append(p)
    return out


# a user-chosen alphabet for `.` and negated classes that is a superset of the default one
# (Cyrillic and Greek letters added): \d and \w keep their default (ASCII) alphabets
WIDE_LETTERS = None


def wide_letters():
    global WIDE_LETTERS
    if WIDE_LETTERS is None:
        import string
        WIDE_LETTERS = (string.ascii_letters + string.digits + string.punctuation + " "
                        + "\u0430\u0431\u044f\u03b1\u03c9\u00e9")
    return WIDE_LETTERS


WIDE_ATOMS = [".", "[^a]", "[^\u0430-\u044f]", "[^a-z\u0430-\u044f]", "[^\u03b1-\u03c9\\d]",
              "[^\u0430]", "[^ -~]", "[\u0430-\u0432]"]
# (no negated \w here: the added letters are word characters for `re`, while the generator's own
# "word" alphabet stays ASCII unless the user widens it too - that would be the user's mismatch)


def run_pattern(rng, p, mr, supported, b, acc, atom_pass=False, wide=False, route="generator"):
    """Explores generate(p); returns list of (kind, script, detail).

    route 'generator': a fresh RegexGenerator per execution (so a replayed script meets the same
    state); 'thrice': one fresh instance generates the pattern three times in a row and the LAST
    string is judged (what an instance keeps between generate() calls); 'fake': through the public
    fake(schema.str.regex(p)) and the module-level generator."""
    def make():
        return (RegexGenerator(Random(), alphabet={"letters": wide_letters()}, max_repeat=mr) if wide
                else RegexGenerator(Random(), max_repeat=mr))

    def thunk():
        if route == "fake":
            return d42_fake(schema.str.regex(p))
        gen = make()
        if route == "thrice":
            gen.generate(p)
            gen.generate(p)
        return gen.generate(p)

    rx = re.compile(p)
    found = {}
    D = b["D"] if mr == 32 else b["D_other"]
    items, info = e2.explore_all(rng, thunk, D, b["full_cap"], b["max_execs"])
    if info["capped"]:
        acc.cap("max_execs")
    for script, sites, o in items:
        acc.count("executions")
        if o[0] == "exc":
            acc.n["out:exception"] += 1
            if supported:
                found.setdefault(f"raises:{o[1]}", (script, o[2]))
            continue
        s = o[1]
        if not isinstance(s, str):
            found.setdefault("returned-non-string", (script, repr(s)))
            continue
        acc.outcome((p, s))
        m = matches(p, rx, s, acc)
        if m is None:
            continue
        if not m:
            kind = "generated-string-does-not-match" if supported else "silent-non-match"
            found.setdefault(kind, (script, repr(s)))
        elif supported and mr == 32 and len(script) <= 3:
            try:
                if validate(schema.str.regex(p), s).has_errors():
                    found.setdefault("own-schema-rejects-generated-string", (script, repr(s)))
            except Exception as e:  # noqa: BLE001
                found.setdefault(f"validate-raises:{type(e).__name__}", (script, repr(s)))
    return [(k, sc, d) for k, (sc, d) in found.items()], info


def shape(p):
    """Coarse class of a pattern for signatures: its quantifier / construct skeleton."""
    s = re.sub(r"\\[dwx.AZ](41)?", "C", p)
    s = re.sub(r"\[\^[^\]]*\]", "N", s)
    s = re.sub(r"\[[^\]]*\]", "K", s)
    s = re.sub(r"\?P<n>", "", s)
    s = re.sub(r"[a-zA-Z]", "l", s)
    return s.replace("|", "/")


def second_instance():
    """Another, differently configured generator exists in the process (public constructor
    arguments; what it generates is the user's business and is not judged).  Default-configured
    generators created afterwards must be unaffected."""
    g = RegexGenerator(Random(), alphabet={"digits": "0123456789abcdef", "word": "ab-", "letters": "ab~"}, max_repeat=3)
    try:
        g.generate("\\d\\w[^a]")
    except Exception:  # noqa: BLE001
        pass


def worker(shard, nshards, tier, seed):
    acc = Acc()
    b = BOUNDS[tier]
    sup = supported_patterns(tier)
    uns = unsupported_patterns()
    jobs = []
    for a in ATOMS:
        jobs.append(("atom", a, 32))
    for p in sup:
        for mr in MAX_REPEATS:
            jobs.append(("sup", p, mr))
    for p in uns:
        jobs.append(("uns", p, 32))
    # the same atoms, and every pattern that draws from an alphabet, again after a second
    # generator instance with its own alphabet has been created (run last in every shard, so
    # that all jobs above see a process in which no such instance ever existed)
    for a in WIDE_ATOMS:
        jobs.append(("wide", a, 32))
        jobs.append(("wide", "x" + a + "{2}", 2))
    # one instance generating the same pattern three times (classes, negations, repeats)
    for a in ATOMS + ["[^ab]+", "[^ab]x[^a]", "(a|[^b])+", "\\d{2}[^\\d]", "[ab]{2,}"]:
        jobs.append(("thrice", a, 32))
    # through the public fake(): every atom (every choice index), and every unsupported pattern
    for a in ATOMS:
        jobs.append(("fake-atom", a, 32))
    for p in uns:
        jobs.append(("fake-uns", p, 32))
    # ... and supported patterns through fake(): those whose only metacharacters are one kind
    # (counted repeats on bare literals, a lone class, a lone group, ...) and every 4th of the rest
    for p in LITERALISH + sup[::4]:
        jobs.append(("fake-sup", p, 32))
    jobs2 = [("atom2", a, 32) for a in ATOMS]
    jobs2 += [("sup2", p, 32) for p in sup if any(x in p for x in ("\\d", "\\w", "[", "."))]
    mine = [jobs[i] for i in range(shard, len(jobs), nshards)] \
        + [jobs2[i] for i in range(shard, len(jobs2), nshards)]
    rng_full = e2.Scripted(seed, full_choice=True)
    rng = e2.Scripted(seed)
    for i, (kind, p, mr) in enumerate(mine):
        acc.count("programs")
        if kind.endswith("2"):
            second_instance()
        if kind in ("atom", "atom2", "wide", "fake-atom"):
            with e2.installed(rng_full):
                found, info = run_pattern(rng_full, p, mr, True, dict(b, full_cap=5000), acc,
                                          wide=(kind == "wide"),
                                          route="fake" if kind == "fake-atom" else "generator")
            acc.count("atom_pass_exhaustive", int(info["exhaustive"]))
        elif kind == "thrice":
            with e2.installed(rng):
                found, info = run_pattern(rng, p, mr, True, dict(b, D=1, full_cap=300), acc, route="thrice")
        elif kind == "fake-sup":
            with e2.installed(rng):
                found, info = run_pattern(rng, p, mr, True, dict(b, D=1), acc, route="fake")
        elif kind == "fake-uns":
            with e2.installed(rng):
                found, info = run_pattern(rng, p, mr, False, dict(b, D=1), acc, route="fake")
        elif kind == "sup2":
            with e2.installed(rng):
                found, info = run_pattern(rng, p, mr, True, dict(b, D=b["D_other"]), acc)
        else:
            with e2.installed(rng):
                found, info = run_pattern(rng, p, mr, kind == "sup", b, acc)
        acc.count("patterns_" + kind)
        for k, script, detail in found:
            acc.violation(f"C09|{k}|{shape(p)}|max_repeat={mr}",
                          {"pattern": p, "max_repeat": mr, "supported": kind not in ("uns", "fake-uns"),
                           "route": ("fake" if kind.startswith("fake") else
                                     "thrice" if kind == "thrice" else "generator"),
                           "script": [list(x) for x in script], "detail": detail, "kind": k,
                           "tier": tier, "seed": seed, "atom_pass": kind.startswith("atom") or kind in ("wide", "fake-atom"),
                           "wide_alphabet": kind == "wide",
                           "second_instance": kind.endswith("2")})
        if (i * nshards + shard) % 1009 == 0:
            acc.sample({"pattern": p, "max_repeat": mr, "executions": info["executions"],
                        "whole_tree": info["exhaustive"]})
    return acc


def run(tier, seed):
    acc = parallel(worker, tier, seed, nshards=128)
    cov = {
        "states": acc.n["programs"],
        "transitions": acc.n["executions"],
        "traces_validated_against_impl": acc.n["executions"],
        "programs": acc.n["programs"],
        "evaluations": acc.n["executions"],
        "distinct_nontrivial": len(acc.outcomes),
        "rule": "regex programs from the grammar x max_repeat in (32, 2, 50) x RNG scripts with <= D "
                "deviations (atoms: every index of every draw); distinct = (pattern, generated string)",
        "exhaustive": not acc.caps,
        "bounds": dict(BOUNDS[tier], tier=tier, supported=acc.n["patterns_sup"] // len(MAX_REPEATS),
                       after_second_generator_instance=acc.n["patterns_sup2"] + acc.n["patterns_atom2"],
                       unsupported=acc.n["patterns_uns"], atoms=len(ATOMS)),
    }
    return acc, cov, ["negated classes with an empty complement, anchors in the middle and flag groups "
                      "are outside the grammar", "re.fullmatch is the oracle"]


def replay(case):
    b = BOUNDS[case.get("tier", "quick")]
    acc = Acc()
    full = case.get("atom_pass", False)
    rng = e2.Scripted(case.get("seed", 0), full_choice=full)
    if case.get("second_instance"):
        second_instance()
        b = dict(b, D=b["D_other"])
    with e2.installed(rng):
        found, _ = run_pattern(rng, case["pattern"], case["max_repeat"], case["supported"],
                               dict(b, full_cap=5000) if full else
                               (dict(b, D=1, full_cap=300) if case.get("route") == "thrice" else
                                dict(b, D=1) if case.get("route") == "fake" else b), acc,
                               wide=bool(case.get("wide_alphabet")), route=case.get("route", "generator"))
    return [f"C09|{k}|{shape(case['pattern'])}|max_repeat={case['max_repeat']}" for k, _, _ in found]
