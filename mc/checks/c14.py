"""C14 - from_native(value) denotes exactly that value.

Every nested plain value within the size bound: from_native(v) accepts a copy of v, generates
exactly v (same types) under every RNG script, rejects every single-step perturbation (modulo
bool/int identification and float tolerance); every non-plain kind is refused with ValueError.
"""
import copy
import datetime as _dt
import decimal
import fractions
import itertools
import math
import uuid

from niltype import Nil

from d42 import fake, validate
from d42.declaration import Schema
from d42.utils import from_native

from .. import e2
from .. import model as M
from ..codec import NAMED, TAG_RED, src, unsrc
from ..common import verdict
from ..runner import Acc, parallel
from ..terms import fp
from ..values import ZOO, cp, missing_variants, perturb

LEAVES = [None, True, False, 0, 1, -7, 2 ** 70, 0.0, 1.5, 2.5e-12, "", "a", b"", b"a", M.FIX_UUID,
          M.FIX_DT, M.FIX_DATE, float("inf"), float("-inf"), float("nan"),
          # text that is not in Unicode normal form C (a base letter + combining mark, a
          # compatibility sign), a lone surrogate, NUL
          "e\u0301", "\u212b\u2126", "\ud800", "a\x00b",
          # a str-mixin enum member: a str (== "red") whose str() is 'Tag.RED'
          TAG_RED]
# keys of every hashable plain kind (a dict is plain data whatever it is keyed by)
KEYS = [None, True, 0, -7, 1.5, "", "a b", b"k", (1, 2), M.FIX_UUID, M.FIX_DATE, M.FIX_DT, frozenset([1]),
        "e\u0301"]
NONPLAIN = [decimal.Decimal("1.5"), fractions.Fraction(1, 3), complex(1, 2), (1, 2), (), {1, 2},
            frozenset([1]), bytearray(b"ab"), range(3), NAMED["memoryview"],
            uuid.UUID("51c2f442-bf61-11f1-b9da-02fc00000001"), uuid.uuid5(uuid.NAMESPACE_DNS, "x"),
            uuid.UUID("00000000-0000-0000-0000-000000000000"), NAMED["time"], NAMED["timedelta"],
            NAMED["object"], NAMED["class"], NAMED["function"], Ellipsis, Nil, NAMED["NotImplemented"]]


def containers(members, keys=("a", "b")):
    out = [[], {}]
    for x in members:
        out.append([cp(x)])
        out.append({keys[0]: cp(x)})
    for x, y in itertools.product(members, repeat=2):
        out.append([cp(x), cp(y)])
        out.append({keys[0]: cp(x), keys[1]: cp(y)})
    return out


def plain_values(tier):
    d0 = list(LEAVES)
    d1 = containers(LEAVES)
    rep = [None, True, 1, 1.5, "a", M.FIX_UUID] + [d1[0], d1[1], d1[5], d1[40], d1[41], d1[100]]
    if tier == "thorough":
        rep = LEAVES + d1[::29]
    d2 = containers(rep, keys=("k", 1))
    out = d0 + d1 + d2
    for k in KEYS:
        out += [{k: 1}, {k: None, "a": "x"}, {"a": {k: [1]}}, [{k: "a"}, {k: "a", "z": 0}]]
    out.append({k: i for i, k in enumerate(KEYS) if k is not True and k != 0 or k is None})
    # bigger than any default bound of the generator: 17, 40 and 130 members, long text and bytes
    out += [[0] * 17, list(range(40)), ["a", None] * 65, {"k%d" % i: i for i in range(17)},
            {"rows": [{"id": i, "tags": ["t"] * 3} for i in range(20)]}, "x" * 300, b"\x00\xff" * 150,
            2 ** 200, -(10 ** 18) - 1, 10 ** 15 + 1]
    # floats at the very bottom of the range (subnormals, negative zero)
    out += [5e-324, -5e-324, 1e-310, -0.0, [0.0, -0.0], {"a": 1e-310, "b": 0.0}, 2.2250738585072014e-308]
    # text that spells a marker: the strings "..." / "Nil" as key, as value, as both
    out += ["...", {"...": "..."}, {"a": 1, "...": "..."}, [{"...": "..."}, "..."], {"...": 1}, {"a": "..."},
            {"Nil": "Nil"}, {"optional('a')": 1}]
    if tier == "thorough":
        rep3 = [None, 1, "a"] + d2[::97]
        out += containers(rep3, keys=("", (1, 2)))
    return out


def same(v, w):
    """w denotes the same plain value as v (bool/int identification and float tolerance allowed)."""
    if isinstance(v, list):
        return isinstance(w, list) and len(v) == len(w) and all(same(a, b) for a, b in zip(v, w))
    if isinstance(v, dict):
        return isinstance(w, dict) and len(v) == len(w) and all(k in w and same(v[k], w[k]) for k in v)
    if isinstance(v, float):
        return isinstance(w, float) and (math.isclose(v, w) or (v != v and w != w))
    if isinstance(v, (bool, int)):
        return isinstance(w, (bool, int)) and v == w
    if v is None:
        return w is None
    if isinstance(v, _dt.datetime):
        return isinstance(w, _dt.datetime) and v == w
    if isinstance(v, _dt.date):
        return isinstance(w, _dt.date) and not isinstance(w, _dt.datetime) and v == w
    return type(v) is type(w) and v == w


def identical(v, w):
    """same value AND same types, recursively (nan is identical to nan)."""
    if type(v) is not type(w):
        return False
    if isinstance(v, float) and v != v:
        return w != w
    if isinstance(v, list):
        return len(v) == len(w) and all(identical(a, b) for a, b in zip(v, w))
    if isinstance(v, dict):
        return list(v) == list(w) and all(identical(v[k], w[k]) for k in v)
    return v == w


def judge_plain(v, rng, acc=None):
    found = []
    keep = src(v)
    try:
        s = from_native(v)
    except Exception as e:  # noqa: BLE001
        return [(f"C14|from_native-raises:{type(e).__name__}|{type(v).__name__}", keep)]
    if not isinstance(s, Schema):
        return [("C14|from_native-returned-non-schema", keep)]
    if src(v) != keep:
        found.append(("C14|from_native-mutated-its-argument", keep))
    if verdict(s, copy.deepcopy(v)) is not True:
        found.append((f"C14|rejects-own-value|{type(v).__name__}", keep))
    items, _ = e2.explore_all(rng, lambda: fake(s), 2, full_cap=50, max_execs=100)
    for _, _, o in items:
        if acc:
            acc.count("generations")
        if o[0] == "exc":
            found.append((f"C14|fake-raises:{o[1]}|{type(v).__name__}", keep))
            break
        if not identical(v, o[1]):
            found.append((f"C14|generates-other-value|{type(v).__name__}", src(o[1])))
            break
    if isinstance(v, (list, dict)):
        # the caller's container is refused (an unconvertible member), repaired in place and
        # converted again: a plain value like any other
        again = copy.deepcopy(v)
        bad = NAMED["object"]
        try:
            if isinstance(again, list):
                again.append(bad)
            else:
                again["zz-bad"] = bad
            try:
                from_native(again)
                found.append((f"C14|non-plain-member-accepted|{type(v).__name__}", keep))
            except ValueError:
                pass
            if isinstance(again, list):
                again.pop()
            else:
                del again["zz-bad"]
            s2 = from_native(again)
            if fp(s2) != fp(s):
                found.append((f"C14|repaired-container-converts-differently|{type(v).__name__}", keep))
        except Exception as e:  # noqa: BLE001
            found.append((f"C14|repaired-container-refused:{type(e).__name__}|{type(v).__name__}", keep))
    term = M.native_term(v)
    for w in perturb(v) + missing_variants(v):
        if acc:
            acc.count("perturbations")
        got = verdict(s, w)
        if got is not True and got is not False:
            found.append((f"C14|validate-{got}|{type(v).__name__}", src(w)))
            break
        if got is True and not same(v, w):
            found.append((f"C14|accepts-different-value|{type(v).__name__}|{type(w).__name__}", src(w)))
            break
        if got != M.accepts(term, w):
            found.append((f"C14|verdict-differs-from-model|{type(v).__name__}|{type(w).__name__}", src(w)))
            break
    return found


def nonplain_cases():
    for z in NONPLAIN:
        yield z
        yield [z]
        yield [1, z]
        yield {"a": z}
        yield {"a": [1, {"b": z}]}
    # `...` as a dict key is a placeholder, not plain data (with a plain or a placeholder value)
    for d in ({Ellipsis: 1}, {Ellipsis: Ellipsis}, {"a": 1, Ellipsis: "x"}):
        yield d
        yield [d]
        yield {"a": d}


def judge_nonplain(v):
    try:
        r = from_native(v)
    except ValueError:
        return None
    except Exception as e:  # noqa: BLE001
        return f"C14|non-plain-raises:{type(e).__name__}"
    return f"C14|non-plain-accepted|{type(r).__name__}"


def worker(shard, nshards, tier, seed):
    acc = Acc()
    rng = e2.Scripted(seed)
    with e2.installed(rng):
        vals = plain_values(tier)
        for i in range(shard, len(vals), nshards):
            v = vals[i]
            acc.count("plain_values")
            if isinstance(v, (list, dict)) and v:
                acc.count("nested_values")
            for sig, detail in judge_plain(v, rng, acc):
                acc.violation(sig, {"value": src(v), "detail": detail, "plain": True})
            acc.outcome(src(v))
            if i % 211 == 0:
                acc.sample({"value": src(v), "perturbations": len(perturb(v))})
        for i, v in enumerate(nonplain_cases()):
            if i % nshards != shard:
                continue
            acc.count("nonplain_values")
            sig = judge_nonplain(v)
            if sig:
                acc.violation(sig + "|" + type(v).__name__, {"value": src(v), "plain": False})
    return acc


def run(tier, seed):
    acc = parallel(worker, tier, seed)
    cov = {
        "states": acc.n["plain_values"] + acc.n["nonplain_values"],
        "transitions": acc.n["perturbations"] + acc.n["generations"],
        "traces_validated_against_impl": acc.n["perturbations"] + acc.n["generations"],
        "evaluations": acc.n["perturbations"],
        "distinct_nontrivial": acc.n["nested_values"],
        "rule": "every plain value over 16 leaf kinds and lists/dicts of 0-2 members up to the depth "
                "bound x {copy, every single-step perturbation at every depth}; non-plain kinds alone "
                "and nested; non-trivial = non-empty containers",
        "exhaustive": True,
        "bounds": {"tier": tier, "leaves": len(LEAVES), "nonplain_kinds": len(NONPLAIN)},
    }
    return acc, cov, ["True/False identified with 1/0; floats within math.isclose tolerance",
                      "nan is a leaf like any other float: from_native(nan) must accept and generate nan"]


def replay(case):
    v = unsrc(case["value"])
    if case.get("plain", True):
        rng = e2.Scripted(0)
        with e2.installed(rng):
            return [sig for sig, _ in judge_plain(v, rng)]
    sig = judge_nonplain(v)
    return [sig + "|" + type(v).__name__] if sig else []
