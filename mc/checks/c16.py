"""C16 - custom schema types behave like built-ins in every position.

Every universe term x every choice of 1 or 2 sub-schema positions replaced by a forwarding
CustomSchema x V(T): same errors (kind, path, value, parameter), same repr, same generated
values under every RNG script, substitution succeeds or fails identically.
"""
import itertools

from d42 import fake, substitute, validate
from d42.representation import Representor
from d42.validation import Validator
from th import PathHolder

from .. import e2
from ..codec import src, unsrc
from ..common import safe_repr, shard_items, verdict
from ..runner import Acc, parallel
from .. import model as M
from ..subst import partials, try_subst, with_placeholders
from ..terms import E, depth, show, try_build
from ..universe import universe
from ..values import dedup, value_universe

MAXDEPTH = {"quick": 2, "thorough": 3}
VLIM = {"quick": 40, "thorough": 120}
MAXPAIRS = {"quick": 15, "thorough": 60}


def positions(t, path=()):
    """Paths to every sub-term that may be wrapped (root included)."""
    k = t[0]
    if k in ("add", "mkreq", "native", "subst", "or"):
        return []            # operands of + / make_required / | must be real dict / any schemas
    out = [path]
    if k == "list" and t[1] is not None:
        if t[1][0] == "typed":
            out += positions(t[1][1], path + (("typed",),))
        else:
            for i, x in enumerate(t[1][1]):
                if x is not E:
                    out += positions(x, path + (("elem", i),))
    elif k == "dict" and t[1] is not None:
        for i, (_, _, sub) in enumerate(t[1]):
            out += positions(sub, path + (("key", i),))
    elif k == "any" and t[1] is not None:
        for i, x in enumerate(t[1]):
            sub = positions(x, path + (("alt", i),))
            if x[0] == "any":
                sub = [p for p in sub if p != path + (("alt", i),)]   # would change flattening
            out += sub
    elif k == "alias":
        out += positions(t[2], path + (("alias",),))
    return out


def replace(t, path, fn):
    if not path:
        return fn(t)
    step, rest = path[0], path[1:]
    k = t[0]
    if step[0] == "typed":
        return ("list", ("typed", replace(t[1][1], rest, fn)), t[2])
    if step[0] == "elem":
        items = list(t[1][1])
        items[step[1]] = replace(items[step[1]], rest, fn)
        return ("list", ("elems", tuple(items)), t[2])
    if step[0] == "key":
        ents = list(t[1])
        key, opt, sub = ents[step[1]]
        ents[step[1]] = (key, opt, replace(sub, rest, fn))
        return ("dict", tuple(ents), t[2])
    if step[0] == "alt":
        alts = list(t[1])
        alts[step[1]] = replace(alts[step[1]], rest, fn)
        return ("any", tuple(alts))
    if step[0] == "alias":
        return ("alias", t[1], replace(t[2], rest, fn))
    raise ValueError((k, step))


def wrappings(t, tier):
    pos = positions(t)
    for p in pos:
        yield replace(t, p, lambda x: ("fwd", x))
        yield replace(t, p, lambda x: ("fwd", x, "kw"))     # hooks written with **kwargs only
        yield replace(t, p, lambda x: ("fwd", x, "attr"))   # target kept outside props
        yield replace(t, p, lambda x: ("fwd", x, "set"))    # target written with Props.set
        yield replace(t, p, lambda x: ("fwd", x, "named"))  # class named like a built-in (`Int`)
        yield replace(t, p, lambda x: ("fwd", x, "rereg"))  # registered again under the same name
        yield replace(t, p, lambda x: ("fwd", x, "late"))   # hooks attached after the class statement
    pairs = [(p, q) for p, q in itertools.combinations(pos, 2)
             if p[:len(q)] != q and q[:len(p)] != p]          # disjoint positions
    for p, q in pairs[:MAXPAIRS[tier]]:
        yield replace(replace(t, p, lambda x: ("fwd", x)), q, lambda x: ("fwd", x))
        # two instances of one class with EQUAL props and different targets side by side
        yield replace(replace(t, p, lambda x: ("fwd", x, "attr")), q, lambda x: ("fwd", x, "attr"))
    # nested wrap: a wrapped node inside a wrapped node
    nest = [(p, q) for p, q in itertools.permutations(pos, 2) if q[:len(p)] == p and p != q]
    for p, q in nest[:MAXPAIRS[tier] // 3]:
        yield replace(replace(t, q, lambda x: ("fwd", x)), p, lambda x: ("fwd", x))


def errs(s, v):
    try:
        return safe_repr(validate(s, v).get_errors(), 4000)
    except Exception as e:  # noqa: BLE001
        return "raises:" + type(e).__name__


# second, differently configured instances of the visitor classes (the module-level defaults are
# always used first in a process, so per-class caches of "the" visitor show up here)
REPR2 = Representor("s", indent=2)
VALID2 = Validator(path_holder_factory=lambda: PathHolder("root"))


def judge(t, tw, s, sw, vals, rng, acc=None):
    found = []
    rs, rw = safe_repr(s, 5000), safe_repr(sw, 5000)
    if rs != rw:
        found.append(("C16|repr-differs", rw[:300]))
    try:
        a2, b2 = s.__accept__(REPR2), sw.__accept__(REPR2)
    except Exception as e:  # noqa: BLE001
        a2, b2 = "x", f"raises {type(e).__name__}"
    if a2 != b2:
        found.append(("C16|repr-differs-under-a-second-representor-instance", str(b2)[:300]))
    for v in vals[:8]:
        try:
            ea = safe_repr(s.__accept__(VALID2, value=v).get_errors(), 3000)
            eb = safe_repr(sw.__accept__(VALID2, value=v).get_errors(), 3000)
        except Exception as e:  # noqa: BLE001
            ea, eb = "x", f"raises {type(e).__name__}"
        if ea != eb:
            found.append(("C16|errors-differ-under-a-second-validator-instance",
                          f"v={src(v)} builtin={ea[:200]} custom={eb[:200]}"))
            break
    for v in vals:
        if acc:
            acc.count("validations")
        a, b = errs(s, v), errs(sw, v)
        if a != b:
            found.append(("C16|errors-differ", f"v={src(v)} builtin={a[:200]} custom={b[:200]}"))
            break
    ga, _ = e2.explore_all(rng, lambda: fake(s), 1, full_cap=40, max_execs=120)
    gb, _ = e2.explore_all(rng, lambda: fake(sw), 1, full_cap=40, max_execs=120)
    if acc:
        acc.count("generations", len(ga) + len(gb))
    oa = [(tuple(sc), o[0], src(o[1]) if o[0] == "ok" else o[1]) for sc, _, o in ga]
    ob = [(tuple(sc), o[0], src(o[1]) if o[0] == "ok" else o[1]) for sc, _, o in gb]
    if oa != ob:
        found.append(("C16|generation-differs", f"{oa[:2]} vs {ob[:2]}"))
    else:
        for _, _, o in gb:
            # conforming wherever the built-in's own generated value conforms (unsatisfiable
            # schemas generate non-conforming values with or without the wrapper)
            if o[0] == "ok" and verdict(sw, o[1]) != verdict(s, o[1]):
                found.append(("C16|generated-value-conformance-differs", src(o[1])))
                break
    # substitution values: plain ones, partial dicts, and values carrying the `...` / Nil
    # placeholders at every position (substitution gives them a meaning of their own)
    svals = list(vals[:12]) + long_values(t)
    for w in M.witnesses(t)[:2]:
        svals += partials(w)[:8] + with_placeholders(w)[:60]
    for v in dedup(svals):
        if acc:
            acc.count("substitutions")
        ra, rb = try_subst(s, v), try_subst(sw, v)
        if ra[0] != rb[0] or (ra[0] == "exc" and ra[1] != rb[1]):
            found.append(("C16|substitution-outcome-differs", f"v={src(v)} builtin={ra[:2]} custom={rb[:2]}"))
            break
        if ra[0] == "suberr" and ra[1] != rb[1]:
            # refused for the same reason: the forwarder prints as its target, so the messages agree
            found.append(("C16|substitution-refused-with-another-message", f"v={src(v)} builtin={ra[1]!r} custom={rb[1]!r}"))
            break
        if ra[0] == "ok":
            if safe_repr(ra[1], 5000) != safe_repr(rb[1], 5000):
                found.append(("C16|substitution-result-repr-differs", f"v={src(v)}"))
                break
            if [verdict(ra[1], w) for w in vals] != [verdict(rb[1], w) for w in vals]:
                found.append(("C16|substitution-result-verdicts-differ", f"v={src(v)}"))
                break
    return found


def extras():
    """Trees the universe does not have: an alias whose name contains a line break (the
    representor prints alias names raw) at depth 1 and 2."""
    from ..universe import INT
    two = ("alias", "Two\nLines", ("dict", (("k", False, INT),), False))
    from ..universe import S, call
    return [("dict", (("a", False, two),), False), ("list", ("typed", ("alias", "Two\nLines", INT)), ()),
            ("list", ("elems", (("dict", (("b", True, two),), True),)), ()),
            # typed lists of an already pinned float (substituting a value inside the tolerance
            # must not re-pin it) and of plain uuid4 (long lists below)
            ("list", ("typed", S("float", call(1.5))), ()), ("list", ("typed", S("float", call(2.5), ("precision", 2))), ()),
            ("list", ("typed", S("uuid4")), ())]


def long_values(t):
    """For a typed list: 70 copies of a conforming member, and the same with ONE non-conforming
    member near the end (beyond any 'bulk' threshold a validator may use for long lists)."""
    if t[0] != "list" or t[1] is None or t[1][0] != "typed":
        return []
    ws = M.witnesses(t[1][1])
    if not ws:
        return []
    import uuid
    bad = uuid.UUID("51c2f442-bf61-11f1-b9da-02fc00000001") if t[1][1][0] == "uuid4" else ("q" if not isinstance(ws[0], str) else 0)
    out = [[ws[0]] * 70, [ws[0]] * 66 + [bad] + [ws[0]] * 3]
    if isinstance(ws[0], float) and ws[0] == ws[0] and ws[0] not in (0.0, float("inf"), float("-inf")):
        # a member inside math.isclose's band around the pinned member, not equal to it
        out += [[ws[0] * (1 + 4e-10)], [ws[0], ws[0] * (1 - 4e-10)]]
    return out


def deep_pairs():
    """(built-in tree, the same tree with EVERY level wrapped in the same custom class), eight
    levels deep through typed lists, dict values, element lists, any alternatives and aliases."""
    from ..universe import INT, NONE, S
    t = tw = S("int", ("min", 0), ("max", 7))
    shapes = [lambda x: ("list", ("typed", x), (("len", 1),)), lambda x: ("dict", (("a", False, x),), False),
              lambda x: ("list", ("elems", (x,)), ()), lambda x: ("any", (x, NONE)),
              lambda x: ("alias", "L", x), lambda x: ("dict", (("a", True, x), ("b", False, INT)), True),
              lambda x: ("list", ("elems", (x, Ellipsis)), ()), lambda x: ("list", ("typed", x), ())]
    out = []
    for i, mk in enumerate(shapes):
        t, tw = mk(t), ("fwd", mk(("fwd", tw) if i == 0 else tw))
        if i >= 4:
            out.append((t, tw))
    return out


def worker(shard, nshards, tier, seed):
    acc = Acc()
    rng = e2.Scripted(seed)
    with e2.installed(rng):
        if shard == 0:
            for t, tw in deep_pairs():
                s, _ = try_build(t)
                sw, err = try_build(tw)
                if s is None or sw is None:
                    acc.violation(f"C16|deeply-nested-tree-does-not-build:{type(err).__name__}",
                                  {"term": src(t), "wrapped": src(tw)})
                    continue
                vals, _ = value_universe(t, VLIM[tier])
                acc.count("wrapped_trees")
                acc.count("deeply_nested_trees")
                for sig, detail in judge(t, tw, s, sw, vals, rng, acc):
                    acc.violation(sig, {"term": src(t), "wrapped": src(tw), "wrapped_show": show(tw),
                                        "detail": detail, "tier": tier})
        U = [t for t in universe(tier) if depth(t) <= MAXDEPTH[tier]] + extras()
        for i, t in shard_items(U, shard, nshards):
            s, _ = try_build(t)
            if s is None:
                continue
            vals, _ = value_universe(t, VLIM[tier])
            vals = vals + long_values(t)
            acc.count("schemas")
            for tw in wrappings(t, tier):
                sw, err = try_build(tw)
                if sw is None:
                    acc.violation(f"C16|wrapped-tree-does-not-build:{type(err).__name__}",
                                  {"term": src(t), "wrapped": src(tw)})
                    continue
                acc.count("wrapped_trees")
                found = judge(t, tw, s, sw, vals, rng, acc)
                acc.outcome((i, show(tw)))
                for sig, detail in found:
                    acc.violation(sig, {"term": src(t), "wrapped": src(tw), "wrapped_show": show(tw),
                                        "detail": detail, "tier": tier})
            if i % 97 == 0:
                acc.sample({"schema": show(t), "wrappings": sum(1 for _ in wrappings(t, tier))})
    return acc


def run(tier, seed):
    acc = parallel(worker, tier, seed, warm_pass=True)
    n = acc.n["validations"] + acc.n["generations"] + acc.n["substitutions"]
    cov = {
        "states": acc.n["wrapped_trees"],
        "transitions": n,
        "traces_validated_against_impl": n,
        "evaluations": n,
        "distinct_nontrivial": acc.n["wrapped_trees"],
        "rule": "universe term (depth bound) x every single wrapped position, disjoint pairs and "
                "nested pairs of positions x V(T); each wrapped tree is distinct by construction",
        "exhaustive": not acc.caps,
        "bounds": {"tier": tier, "max_depth": MAXDEPTH[tier], "values_per_term": VLIM[tier],
                   "max_pairs_per_term": MAXPAIRS[tier]},
    }
    return acc, cov, ["an any(...) directly inside any(...) is not wrapped (it would change "
                      "declaration-time flattening), nor are operands of + / make_required / |"]


def replay(case):
    t, tw = unsrc(case["term"]), unsrc(case["wrapped"])
    s, _ = try_build(t)
    sw, _ = try_build(tw)
    if s is None or sw is None:
        return "no longer builds"
    tier = case.get("tier", "quick")
    vals, _ = value_universe(t, VLIM[tier])
    rng = e2.Scripted(0)
    with e2.installed(rng):
        return [sig for sig, _ in judge(t, tw, s, sw, vals, rng)]
