"""C13 - schema combinators mean what their parts mean.

+ over all pairs of declared dict operands, make_required over every key subset, | / any over
alternatives in every bracketing, alias of every child; verdicts of the real combined schema on
every value vs the reference model applied to the term of the combination; fake() of the
combination validates; d[key] / iteration / keys() expose the declared members.
"""
import itertools

from d42 import fake, validate
from d42.declaration import DeclarationError
from d42.utils import make_required

from .. import e2
from .. import model as M
from ..codec import src, unsrc
from ..common import verdict
from ..runner import Acc, parallel, parallel_fresh
from ..terms import E, Builder, fp, show, try_build
from ..universe import INT, NONE, S, STR, call, children, ln
from ..values import dedup, value_universe

SX = S("str", call("x"))


def dict_operands(tier):
    if tier == "thorough":
        opts = [None, (False, INT), (True, INT), (False, SX), (True, SX)]
        per_key = {"a": opts, "b": opts, "c": opts}
    else:
        per_key = {"a": [None, (False, INT), (True, INT), (False, SX)],
                   "b": [None, (False, SX), (True, INT), (True, SX)],
                   "c": [None, (True, SX)]}
    out = []
    for combo in itertools.product(*[per_key[k] for k in "abc"]):
        entries = tuple((k, o[0], o[1]) for k, o in zip("abc", combo) if o is not None)
        for rel in (False, True):
            out.append(("dict", entries, rel))
    return out


def dict_values(tier):
    leaf = [None, 1, "x", 0.5]   # None here means "key absent"
    out = []
    for combo in itertools.product(leaf, repeat=3):
        d = {k: v for k, v in zip("abc", combo) if v is not None}
        out.append(d)
        if tier == "thorough" or len(d) <= 1:
            d2 = dict(d)
            d2["z"] = None
            out.append(d2)
    out += [None, [], "x", {"a": None}, {"a": None, "b": None, "c": None}]
    return out


def exposes(t, s, builder):
    """Indexing / iteration / keys() agree with the model's resolved key table."""
    r = M.resolve(t)
    entries = r[1] or ()
    want = [k for k, _, _ in entries]
    try:
        got_iter = [k for k in s if k is not E]
        got_keys = [k for k in s.keys() if k is not E]
    except Exception as e:  # noqa: BLE001
        return f"iteration-raises:{type(e).__name__}"
    if sorted(map(repr, got_iter)) != sorted(map(repr, want)) or \
            sorted(map(repr, got_keys)) != sorted(map(repr, want)):
        return "iteration-keys-differ"
    for k, _, sub in entries:
        try:
            member = s[k]
        except Exception as e:  # noqa: BLE001
            return f"getitem-raises:{type(e).__name__}"
        exp, _ = try_build(sub)
        if exp is None or fp(member) != fp(exp):
            return "getitem-returns-other-schema"
    for bad in ("nope", E, 7, (7,), b"nope"):
        try:
            s[bad]
            return "getitem-accepts-undeclared-key"
        except KeyError:
            pass
        except Exception as e:  # noqa: BLE001
            return f"getitem-undeclared-raises:{type(e).__name__}"
    return None


def compare(t, s, values, acc, rng, label):
    found = []
    for v in values:
        acc.count("validations")
        got = verdict(s, v)
        try:
            exp = M.accepts(t, v)
        except M.ModelGap:
            continue
        acc.outcome((label, repr(t)[:0] or hash(repr(t)), exp, repr(v)))
        if got != exp:
            d = got if isinstance(got, str) else ("impl-accepts" if got else "impl-rejects")
            found.append((f"C13|{label}|{d}", src(v)))
            break
    if M.hsat(t):
        items, _ = e2.explore_all(rng, lambda: fake(s), 1, full_cap=64, max_execs=200)
        for _, _, o in items:
            acc.count("generations")
            if o[0] == "exc":
                found.append((f"C13|{label}|fake-raises:{o[1]}", o[2]))
                break
            if validate(s, o[1]).has_errors():
                found.append((f"C13|{label}|generated-value-invalid", src(o[1])))
                break
            if not M.accepts(t, o[1]):
                found.append((f"C13|{label}|generated-value-rejected-by-model", src(o[1])))
                break
    return found


ATOMS = [S("datetime"), S("date"), S("bytes"), S("uuid4"), S("datetime", call(M.FIX_DT)),
         S("date", call(M.FIX_DATE)), S("uuid4", call(M.FIX_UUID)), S("bytes", call(b"ab")), S("float")]


NONSTR = [("dict", ((1, False, INT), (None, True, SX), ((1, 2), False, INT)), False),
          ("dict", ((0, False, SX), (b"k", True, INT), ("", False, INT), (1, True, SX)), True),
          ("dict", ((None, False, INT), (-1, True, INT)), False),
          # a key that reads like a path into a sibling ("user.name" next to "user": dict)
          ("dict", (("user", False, ("dict", (("id", False, INT), ("name", True, SX)), False)),
                    ("user.name", True, SX), ("user.zip", True, INT)), False)]


def has_nonstr_key(t):
    if isinstance(t, tuple):
        if t and t[0] == "dict" and t[1]:
            if any(not isinstance(k, str) or "." in k or k == "meta" for k, _, _ in t[1]):
                return True
        return any(has_nonstr_key(x) for x in t)
    return False


def cases(tier):
    """(label, term) for every combination."""
    D = dict_operands(tier)
    for d1 in D:
        for d2 in D:
            yield "add", ("add", d1, d2)
    for d in D:
        keys = [k for k, _, _ in d[1]]
        yield "mkreq", ("mkreq", d, None)
        for r in range(0, len(keys) + 1):
            for sub in itertools.combinations(keys, r):
                yield "mkreq", ("mkreq", d, tuple(sub))
    # both operands declare the same key with dict-valued members (the right one relaxed / not):
    # d2's member REPLACES d1's, it is not merged into it
    M1 = ("dict", (("id", False, INT), ("meta", False, ("dict", (("x", False, INT), ("y", True, SX)), False))), False)
    for rel in (True, False):
        M2 = ("dict", (("meta", False, ("dict", (("z", False, SX),), rel)),), False)
        yield "add", ("add", M1, M2)
        yield "add", ("add", M2, M1)
        yield "add", ("add", ("add", M1, M2), M1)
    # dict schemas keyed by other hashables than str (ints incl. 0, None, a tuple, bytes, "")
    for d1, d2 in itertools.permutations(NONSTR + [D[5]], 2):
        yield "add", ("add", d1, d2)
    for d in NONSTR:
        keys = [k for k, _, _ in d[1]]
        yield "mkreq", ("mkreq", d, None)
        for r in range(0, len(keys) + 1):
            for sub in itertools.combinations(keys, r):
                yield "mkreq", ("mkreq", d, tuple(sub))
    K = children(tier)[:8]
    for a, b in itertools.permutations(K, 2):
        yield "or", ("or", a, b)
        yield "any", ("any", (a, b))
    for a, b, c in itertools.permutations(K[:5], 3):
        yield "or-left", ("or", ("or", a, b), c)
        yield "or-right", ("or", a, ("or", b, c))
        yield "any3", ("any", (a, b, c))
        yield "any-nested", ("any", (("any", (a, b)), c))
    # two differently parametrised instances of one user type whose printed form hides the
    # parameter; the type and a subclass of it with equal props and another meaning
    M3, M5, N3 = ("mult", 3), ("mult", 5), ("nmult", 3)
    for a, b in ((M3, M5), (M5, M3), (M3, N3), (N3, M3)):
        yield "or", ("or", a, b)
        yield "any", ("any", (a, b))
        yield "or-left", ("or", ("or", a, b), NONE)
        yield "or-right", ("or", NONE, ("or", a, b))
        yield "any-nested", ("any", (("any", (NONE, a)), b))
    # the bare schema.any (no alternatives declared: accepts everything) as an operand
    BARE = ("any", None)
    for x in (INT, NONE, ("any", (INT, STR))):
        yield "or", ("or", BARE, x)
        yield "or", ("or", x, BARE)
        yield "or-left", ("or", ("or", BARE, x), STR)
        yield "any", ("any", (BARE, x))
        yield "any", ("any", (x, BARE))
    # every remaining atom kind as a direct alternative (their class-level attributes differ)
    for x in ATOMS:
        for y in (NONE, INT):
            yield "or", ("or", x, y)
            yield "or", ("or", y, x)
            yield "any", ("any", (x, y))
            yield "any-nested", ("any", (("any", (y, x)), STR))
            yield "or-right", ("or", STR, ("or", x, y))
    for k in children(tier) + ATOMS + [("list", ("typed", INT), (ln(1, 2),)),
                               ("dict", (("a", False, INT),), True), ("any", (INT, STR)),
                               ("alias", "inner", INT)]:
        yield "alias", ("alias", "T", k)


def _unordered(x):
    """A fingerprint with the entries of every key table sorted (where `...: ...` sits in the
    table of a sum is not part of what the sum means)."""
    if isinstance(x, tuple):
        y = tuple(_unordered(e) for e in x)
        if y and y[0] == "dict":
            return ("dict",) + tuple(sorted(y[1:], key=repr))
        return y
    return x


def judge(label, t, tier, acc, rng):
    b = Builder(track=True)
    try:
        s = b.build(t)
    except Exception as e:  # noqa: BLE001
        return [(f"C13|{label}|build-raises:{type(e).__name__}", str(e)[:120])]
    if label in ("add", "mkreq"):
        vals = dict_values(tier)
        if has_nonstr_key(t):
            vals = vals[:12] + value_universe(t, 80)[0]
    else:
        vals, _ = value_universe(t, 120)
    found = compare(t, s, vals, acc, rng, label)
    # the parts still mean what they meant: every operand object the combination was built from
    # is judged against the model of its own term after the combination exists
    for obj in list(b.keep):
        ot = b.ids.get(id(obj))
        if obj is s or ot is None or ot[0] not in ("dict", "any", "list"):
            continue
        ovals = dict_values(tier)[:40] if ot[0] == "dict" else value_universe(ot, 40)[0]
        for v in ovals:
            acc.count("validations")
            try:
                exp = M.accepts(ot, v)
            except M.ModelGap:
                continue
            if verdict(obj, v) != exp:
                found.append((f"C13|{label}|operand-changed-by-the-combination", f"{show(ot)} on {src(v)}"))
                break
    if label in ("add", "mkreq"):
        # equivalent spellings: d1 + d2 / make_required(d, keys) is the dict one would have written
        # out (the model's resolved key table), structurally and under ==
        try:
            lit = M.resolve(t)
            twin, err = try_build(lit)
        except M.ModelGap:
            twin, err = None, None
        if twin is not None:
            try:
                if _unordered(fp(twin)) != _unordered(fp(s)):
                    found.append((f"C13|{label}|differs-from-the-written-out-dict", ""))
                elif not (twin == s) or (twin != s) or not (s == twin):
                    found.append((f"C13|{label}|not-equal-to-the-written-out-dict", ""))
            except Exception as e:  # noqa: BLE001
                found.append((f"C13|{label}|written-out-dict-eq-raises:{type(e).__name__}", ""))
        if label == "mkreq" and t[2] is None and twin is not None:
            every = b.build(("mkreq", t[1], tuple(k for k, _, _ in (M.resolve(t[1])[1] or ()))))
            if _unordered(fp(every)) != _unordered(fp(s)):
                found.append(("C13|mkreq|default-differs-from-listing-every-key", ""))
        ex = exposes(t, s, b)
        if ex:
            found.append((f"C13|{label}|{ex}", ""))
        if label == "mkreq":
            d = b.build(t[1])
            try:
                make_required(d, ["nope"])
                found.append(("C13|mkreq|nonexisting-key-accepted", ""))
            except DeclarationError:
                pass
            except Exception as e:  # noqa: BLE001
                found.append((f"C13|mkreq|nonexisting-key-raises:{type(e).__name__}", ""))
    if label in ("or", "or-left", "or-right"):
        # equivalent spellings: a | b is schema.any(a, b) - the same structure, not just the same
        # verdicts (bracketing included: unions flatten)
        def as_any(x):
            return ("any", (as_any(x[1]), as_any(x[2]))) if x[0] == "or" else x
        twin, err = try_build(as_any(t))
        if twin is None or fp(twin) != fp(s):
            found.append((f"C13|{label}|operator-differs-from-schema.any", repr(err)[:80] if twin is None else ""))
        else:
            try:
                if not (twin == s) or (twin != s) or repr(twin) != repr(s):
                    found.append((f"C13|{label}|operator-result-not-equal-to-schema.any", ""))
            except Exception as e:  # noqa: BLE001
                found.append((f"C13|{label}|operator-vs-any-eq-raises:{type(e).__name__}", ""))
    if label in ("or", "any", "or-left", "or-right", "any3", "any-nested"):
        want = M.resolve(t)[1]
        try:
            got = list(s)
        except Exception as e:  # noqa: BLE001
            got = None
            found.append((f"C13|{label}|iteration-raises:{type(e).__name__}", ""))
        if got is not None:
            exp = [fp(try_build(x)[0]) for x in want]
            if [fp(x) for x in got] != exp:
                found.append((f"C13|{label}|iteration-alternatives-differ", ""))
    return found


def alias_options_block(acc):
    """alias(name, t) accepts exactly what t accepts ALSO when validate() is given options (extra
    keyword arguments, handed down to nested schemas): t contains a user-defined type that
    interprets the option mc_strict (mc/fwdtype.StrictInt)."""
    from d42 import optional, schema
    from .. import fwdtype  # noqa: F401  (registers schema.mc_strictint)
    n = schema.mc_strictint
    types = {"strictint": n, "list(strictint)": schema.list(n),
             "dict{n: strictint, ...}": schema.dict({"n": n, ...: ...}),
             "dict{optional n}": schema.dict({optional("n"): n}),
             "any(none, strictint)": schema.any(schema.none, n), "int.min(0)": schema.int.min(0),
             "strictint | str": n | schema.str}
    raw = [None, True, False, 0, 1, -1, "x", 1.5]
    values = raw + [[v] for v in raw] + [{"n": v} for v in raw] + [[], {}]
    for name, t in types.items():
        forms = {"alias": schema.alias("T", t), "alias-of-alias": schema.alias("U", schema.alias("T", t)),
                 "member-alias": schema.dict({"k": schema.alias("T", t)}),
                 "element-alias": schema.list(schema.alias("T", t)),
                 "alternative-alias": schema.any(schema.alias("T", t))}
        put = {"member-alias": lambda v: {"k": v}, "element-alias": lambda v: [v]}
        for options in ({}, {"mc_strict": True}, {"mc_strict": False}):
            for v in values:
                exp = verdict(t, v, **options)
                for form, a in forms.items():
                    acc.count("validations")
                    acc.count("alias_validations_with_options")
                    got = verdict(a, put.get(form, lambda x: x)(v), **options)
                    if got != exp:
                        acc.violation(f"C13|alias-options|{form}-differs-from-aliased-type|{name}|"
                                      f"options={sorted(options)}",
                                      {"label": "alias-options", "type": name, "value": src(v),
                                       "options": options, "aliased_type_accepts": exp, "got": got})


def worker(shard, nshards, tier, seed, mode="shard"):
    acc = Acc()
    rng = e2.Scripted(seed)
    with e2.installed(rng):
        todo = [(i, c) for i, c in enumerate(cases(tier)) if i % nshards == shard]
        if mode == "one-process":
            # all aliases (they share one name) and every 25th other combination in ONE process,
            # forwards then backwards: state kept between declarations meets a different operand
            allc = list(enumerate(cases(tier)))
            todo = [(i, c) for i, c in allc if c[0] == "alias" or i % 25 == 0]
            todo = todo + todo[::-1]
        if mode == "one-process" or shard == 3 % nshards:
            alias_options_block(acc)
        for i, (label, t) in todo:
            acc.count("combinations")
            acc.n["kind:" + label] += 1
            for sig, detail in judge(label, t, tier, acc, rng):
                acc.violation(sig, {"label": label, "term": src(t), "term_show": show(t),
                                    "detail": detail, "tier": tier})
            if i % 1501 == 0:
                acc.sample({"combination": show(t)})
    return acc


def run(tier, seed):
    acc = parallel(worker, tier, seed, warm_pass=True)
    one = parallel_fresh(worker, tier, seed, nshards=1, extra=("one-process",))
    one.n = type(one.n)({"one_process:" + k: c for k, c in one.n.items()})
    acc.merge(one)
    cov = {
        "states": acc.n["combinations"],
        "transitions": acc.n["validations"] + acc.n["generations"],
        "traces_validated_against_impl": acc.n["validations"] + acc.n["generations"],
        "evaluations": acc.n["validations"],
        "distinct_nontrivial": len(acc.outcomes),
        "rule": "all pairs of dict operands for +, all key subsets for make_required, all ordered "
                "pairs/triples and bracketings for | and any, alias of every child; x value universe; "
                "distinct = (combination, value, expected verdict) triples",
        "exhaustive": True,
        "by_kind": {k[5:]: v for k, v in acc.n.items() if k.startswith("kind:")},
        "one_process_pass": {"combinations_forwards_and_backwards": acc.n["one_process:combinations"]},
        "bounds": {"tier": tier, "dict_operands": len(dict_operands(tier)),
                   "dict_values": len(dict_values(tier))},
    }
    return acc, cov, ["+ on dict schemas with undeclared key tables is not demanded",
                      "iteration is compared modulo the `...` marker"]


def replay(case):
    acc = Acc()
    if case.get("label") == "alias-options":
        alias_options_block(acc)
        return list(acc.viol)
    t = unsrc(case["term"])
    rng = e2.Scripted(0)
    with e2.installed(rng):
        return [sig for sig, _ in judge(case["label"], t, case.get("tier", "quick"), acc, rng)]
