"""C06 - repr(schema) is DSL source that rebuilds an equal schema.

Every alias-free universe term, every state of the E1 declaration graphs, odd dict keys,
uuid/datetime/date values, + / make_required results and deep nesting: repr == represent,
deterministic, evaluates, same fingerprint, equal under ==, same repr again.
"""
import datetime
import math
import uuid

from niltype import Nil

from d42 import optional, represent, schema
from d42.declaration import Schema

from .. import e1
from .. import model as M
from ..codec import src, unsrc
from ..common import safe_repr
from ..runner import Acc, parallel, parallel_fresh
from ..terms import E, fp, show, subterms, try_build
from ..universe import INT, NONE, S, STR, call, ln, universe, wrap

NS = {"schema": schema, "optional": optional, "UUID": uuid.UUID, "datetime": datetime}
E1_LEN = {"quick": 3, "thorough": 4}


def extra_terms(tier):
    T = tier == "thorough"
    keys = ["a", "it's", 1, (1, 2), None, b"k", frozenset({1}), "", "a b", 1.5, True, 'q"']
    out = []
    for k in keys:
        out.append(("dict", ((k, False, INT),), False))
        out.append(("dict", ((k, True, S("str", call("x"))), ("z", False, NONE)), True))
    vals = [S("uuid4", call(M.FIX_UUID)), S("datetime", call(M.FIX_DT)), S("date", call(M.FIX_DATE)),
            S("datetime", call(datetime.datetime(2020, 1, 2, tzinfo=datetime.timezone.utc))),
            S("bytes", call(b"a'\x00")), S("str", call("it's \"q\"\n")), S("float", call(-0.0)),
            S("float", call(1e-07)), S("int", call(-5)), S("float", call(1.5), ("min", 1.0), ("max", 2.0),
                                                                      ("precision", 3)),
            S("str", ("alphabet", "a'b"), ("contains", "'"), ln(1, 3)), S("str", ("regex", "\\d'\"")),
            S("str", call("ab"), ("alphabet", "ab"), ("contains", "a"), ln(2)),
            S("str", call("ab"), ("regex", "a"))]
    out += vals
    for v in vals[:4]:
        out += wrap(v)
    # deep nesting so every indent level is reached
    deep = [("dict", (("a", False, ("list", ("elems", (INT, E)), ())), ("b", True, STR)), True),
            ("list", ("elems", (("dict", (("a", False, INT),), False), E)), (ln(3),))]
    for d in deep:
        cur = [d]
        for _ in range(3 if T else 2):
            nxt = []
            for c in cur:
                nxt += [w for w in wrap(c) if w[0] != "alias"]
            cur = nxt[:: (3 if T else 5)]
            out += cur
    return out


def has_alias(t):
    return any(x[0] in ("alias", "ualias", "fwd", "subst") for x in subterms(t))


def nonfinite(s):
    """True if any float in the schema's props (recursively) is inf/nan - not literal in repr."""
    def walk(x):
        if isinstance(x, float):
            return not math.isfinite(x)
        if isinstance(x, Schema):
            return any(walk(x.props.get(n)) for n in x.props)
        if isinstance(x, (list, tuple)):
            return any(walk(y) for y in x)
        if isinstance(x, dict):
            return any(walk(k) or walk(v) for k, v in x.items())
        return False
    return walk(s)


OPS = [0]


def judge(s):
    """Violation tail or None for one real schema."""
    OPS[0] += 1
    r = _judge(s)
    return r


def _judge(s):
    # the schema has been rendered as a nested fragment before (public `indent` keyword of the
    # representor): what was done with a schema earlier must not show in its repr
    try:
        frag = represent(s, indent=4)
        if represent(s, indent=4) != frag:
            return "represent-indent-not-deterministic"
    except Exception as e:  # noqa: BLE001
        return f"represent-indent-raises:{type(e).__name__}"
    try:
        text = repr(s)
    except Exception as e:  # noqa: BLE001
        return f"repr-raises:{type(e).__name__}"
    try:
        if represent(s) != text:
            return "repr-differs-from-represent"
        if repr(s) != text:
            return "repr-not-deterministic"
    except Exception as e:  # noqa: BLE001
        return f"represent-raises:{type(e).__name__}"
    try:
        OPS[0] += 3          # repr, represent, repr again
        back = eval(text, dict(NS))  # noqa: S307
        OPS[0] += 1
    except Exception as e:  # noqa: BLE001
        return f"eval-raises:{type(e).__name__}"
    if not isinstance(back, Schema):
        return "eval-gives-non-schema"
    if fp(back) != fp(s):
        return "rebuilt-schema-has-different-structure"
    try:
        if not (back == s) or not (s == back) or (back != s):
            return "rebuilt-schema-not-equal"
    except Exception as e:  # noqa: BLE001
        return f"eq-raises:{type(e).__name__}"
    OPS[0] += 4              # fp x2, ==, !=
    if repr(back) != text:
        return "repr-of-rebuilt-differs"
    return None


def declared_props(s):
    return "+".join(sorted(n for n in s.props if s.props.get(n) is not Nil))


def all_cases(tier):
    """(label, maker) pairs; maker() returns a real schema or None."""
    cases = []
    for t in list(universe(tier)) + extra_terms(tier):
        if not has_alias(t) and "'mult'" not in repr(t) and "'nmult'" not in repr(t):
            # (the parametrised user type of the universe deliberately has no __represent__: what
            # the library prints for it is not meant to be evaluated)
            cases.append(("term", t))
    for kind in e1.KINDS:
        cases.append(("e1", kind))
    return cases


def worker(shard, nshards, tier, seed, mode="shard"):
    acc = Acc()
    OPS[0] = 0
    cases = all_cases(tier)
    order = list(range(shard, len(cases), nshards))
    if mode == "one-process":
        # every schema printed in ONE process, forwards then backwards: whatever the representor
        # keeps between calls meets every other schema, in both orders of first encounter
        order = list(range(len(cases))) + list(range(len(cases) - 1, -1, -1))
    for i in order:
        tag, x = cases[i]
        if tag == "term":
            s, err = try_build(x)
            if s is None:
                acc.count("build_failed")
                continue
            if nonfinite(s):
                acc.count("skipped_nonfinite")
                continue
            acc.count("schemas")
            tail = judge(s)
            acc.outcome(("t", i, tail))
            if tail:
                acc.violation(f"C06|{tail}|{type(s).__name__}[{declared_props(s)}]",
                              {"term": src(x), "term_show": show(x), "repr": safe_repr(s, 400)})
            if i % 151 == 0:
                acc.sample({"schema": show(x), "repr": safe_repr(s, 200)})
        else:
            seen, _ = e1.bfs(x, tier, E1_LEN[tier])
            for _, (s, chain) in seen.items():
                if nonfinite(s):
                    acc.count("skipped_nonfinite")
                    continue
                acc.count("schemas")
                acc.count("e1_states")
                tail = judge(s)
                acc.outcome(("e", x, len(chain), tail))
                if tail:
                    acc.violation(f"C06|{tail}|{type(s).__name__}[{declared_props(s)}]",
                                  {"kind": x, "chain": e1.chain_src(chain), "repr": safe_repr(s, 400)})
    acc.count("operations", OPS[0])
    return acc


def run(tier, seed):
    acc = parallel(worker, tier, seed, warm_pass=True)
    one = parallel_fresh(worker, tier, seed, nshards=1, extra=("one-process",))
    one.n = type(one.n)({"one_process:" + k: c for k, c in one.n.items()})
    acc.merge(one)
    cov = {
        "states": acc.n["schemas"],
        "transitions": acc.n["operations"],
        "traces_validated_against_impl": acc.n["schemas"],
        "evaluations": acc.n["schemas"],
        "distinct_nontrivial": acc.n["schemas"],
        "rule": "alias-free universe terms + odd keys/values + deep nesting + every state of the E1 "
                "declaration graphs; each schema is distinct by construction (fp-deduplicated for E1)",
        "exhaustive": True,
        "bounds": {"tier": tier, "e1_chain_length": E1_LEN[tier]},
        "one_process_pass": {"schemas_forwards_and_backwards": acc.n["one_process:schemas"]},
    }
    return acc, cov, ["layout is not compared, only structure, equality and re-printing",
                      "schemas carrying inf/nan are skipped (Python's own repr is not a literal)"]


def replay(case):
    if "term" in case:
        s, err = try_build(unsrc(case["term"]))
    else:
        s, err = e1.run_chain(case["kind"], e1.chain_unsrc(case["chain"]))
    if s is None:
        return f"no longer builds: {err}"
    tail = judge(s)
    return f"C06|{tail}|{type(s).__name__}[{declared_props(s)}]" if tail else None
