"""C18 - rollout is the inverse of flattening dotted keys.

Every nested mapping with at most N leaves (bounded by LEAF count, not depth x fan-out), every
subset of leaves wrapped in optional, with/without a top-level `...: ...`, three separators and
EVERY permutation of the flat keys; plus rollout(nested) == nested.
"""
import functools
import itertools

from d42 import optional, schema
from d42.utils import rollout

from ..codec import src
from ..common import safe_repr
from ..runner import Acc, parallel

E = Ellipsis
# leaves are handed out in this order: `...` as a LEAF value (under an ordinary key) is just a value
LEAVES = [..., 1, schema.int, "x.y", [1], None]
KEYS = ["a", "b", ""]
KEYS_T = ["a", "b", "", "a b"]
SEPS = [".", "__", "/"]
# (max leaves, max depth).  Thorough: 4 leaves to depth 3 over 3 keys (57 850 trees, 1.2e8 cases)
# plus 4 leaves to depth 2 over 4 keys; (4, 4) over 4 keys is 6.7e6 trees / 1.5e10 cases - not run.
BOUND = {"quick": (3, 3), "thorough": (4, 3)}


@functools.lru_cache(None)
def trees(nleaves, depth, keys):
    """All mappings key -> ('leaf',) | ('map', m) with exactly nleaves leaves, depth <= depth."""
    if nleaves == 0 or depth == 0:
        return ()
    out = []
    for nk in range(1, min(len(keys), nleaves) + 1):
        for ks in itertools.combinations(keys, nk):
            for comp in itertools.product(range(1, nleaves + 1), repeat=nk):
                if sum(comp) != nleaves:
                    continue
                options = []
                for c in comp:
                    o = []
                    if c == 1:
                        o.append(("leaf",))
                    if depth > 1:
                        o += [("map", m) for m in trees(c, depth - 1, keys)]
                    options.append(o)
                for vs in itertools.product(*options):
                    out.append(tuple(zip(ks, vs)))
    return tuple(out)


def realize(m, optset, cnt, path=()):
    d = {}
    for k, v in m:
        p = path + (k,)
        if v[0] == "leaf":
            d[optional(k) if p in optset else k] = LEAVES[cnt[0] % len(LEAVES)]
            cnt[0] += 1
        else:
            d[k] = realize(v[1], optset, cnt, p)
    return d


def leafpaths(m, path=()):
    for k, v in m:
        if v[0] == "leaf":
            yield path + (k,)
        else:
            yield from leafpaths(v[1], path + (k,))


def flatten(d, sep, prefix=None):
    out = {}
    for k, v in d.items():
        opt = isinstance(k, optional)
        kk = k.key if opt else k
        full = kk if prefix is None else prefix + sep + kk
        if isinstance(v, dict):
            out.update(flatten(v, sep, full))
        else:
            out[optional(full) if opt else full] = v
    return out


def _nk(k):
    if isinstance(k, optional):
        return ("opt", k.key)
    return ("ell",) if k is E else ("req", k)


def same(a, b):
    """Equal nested mappings: same keys with optional markers on the same keys, leaves identical."""
    if isinstance(a, dict) and isinstance(b, dict):
        na = {_nk(k): v for k, v in a.items()}
        nb = {_nk(k): v for k, v in b.items()}
        if len(na) != len(a) or len(nb) != len(b) or na.keys() != nb.keys():
            return False
        return all(same(na[k], nb[k]) for k in na)
    return a is b


def tree_list(tier):
    nl, dp = BOUND[tier]
    out = []
    for n in range(1, nl + 1):
        out += [(n, m) for m in trees(n, dp, tuple(KEYS))]
    if tier == "thorough":
        seen = {repr(m) for _, m in out}
        for n in range(1, nl + 1):
            out += [(n, m) for m in trees(n, 2, tuple(KEYS_T)) if repr(m) not in seen]
    return out


def check_tree(n, m, acc):
    lp = list(leafpaths(m))
    for r in range(len(lp) + 1):
        for optset in itertools.combinations(lp, r):
            d = realize(m, set(optset), [0])
            acc.count("cases")
            try:
                idn = rollout(d)
            except Exception as e:  # noqa: BLE001
                idn = e
            if any("." in k for p in lp for k in p):
                pass                  # identity is only claimed for keys free of the separator
            elif not (isinstance(idn, dict) and same(idn, d) and idn == d and d == idn):
                acc.violation("C18|rollout-of-nested-mapping-not-identity",
                              {"tree": m, "leaves": n, "mapping": safe_repr(d, 400),
                               "got": safe_repr(idn, 400)})
            else:
                # ... also with a top-level `...: ...` entry, twice on the same mapping object, and
                # the mapping handed in is left as it was
                dt = dict(d)
                dt[E] = E
                before = list(dt.items())
                acc.count("cases")
                try:
                    r1 = rollout(dt)
                    r2 = rollout(dt)
                except Exception as e:  # noqa: BLE001
                    r1 = r2 = e
                exp = dict(d)
                exp[E] = E
                if not (isinstance(r1, dict) and same(r1, exp) and isinstance(r2, dict) and same(r2, exp)):
                    acc.violation("C18|rollout-of-nested-mapping-with-ellipsis-not-identity",
                                  {"tree": m, "leaves": n, "mapping": safe_repr(exp, 400),
                                   "got": safe_repr(r1, 300) + " / " + safe_repr(r2, 300)})
                now = list(dt.items())
                if len(now) != len(before) or any(a[0] is not b[0] or a[1] is not b[1]
                                                  for a, b in zip(now, before)):
                    acc.violation("C18|rollout-changed-the-mapping-it-was-given",
                                  {"tree": m, "leaves": n, "before": safe_repr(before, 300),
                                   "after": safe_repr(now, 300)})
            for sep in SEPS:
                if any(sep in k for p in lp for k in p):
                    continue          # keys must be separator-free
                f = flatten(d, sep)
                if len(f) != n:
                    acc.count("skipped_flat_key_collision")
                    continue
                items = list(f.items())
                for top in (False, True):
                    for perm in itertools.permutations(items):
                        flat = dict(perm)
                        exp = d
                        if top:
                            flat[E] = E
                            exp = dict(d)
                            exp[E] = E
                        acc.count("cases")
                        given = list(flat.items())
                        try:
                            got = rollout(flat, separator=sep)
                        except Exception as e:  # noqa: BLE001
                            got = e
                        ok = isinstance(got, dict) and same(got, exp)
                        if ok and not (got == exp and exp == got):
                            ok = False      # "an equal nested mapping": plain == must agree too
                        if list(flat.items()) != given:
                            ok = False      # the flat mapping handed in was changed
                        if not ok:
                            kind = ("raises:" + type(got).__name__) if isinstance(got, Exception) \
                                else "differs"
                            acc.violation(
                                f"C18|rollout-of-flattening-{kind}|leaves={n}|optional={r}|top={top}",
                                {"tree": m, "leaves": n, "flat": safe_repr(flat, 400),
                                 "separator": sep,
                                 "expected": safe_repr(exp, 400), "got": safe_repr(got, 400)})


# keys that are free of one separator but contain another: the same flat key string then means
# different things under different separators ("x/y.a" is x/y -> a under "." and x -> y.a under "/")
KEYS_X = ("x", "a", "x/y", "y.a", "x__y", "y/a")
# names that touch the separator's own characters or the usual escape / padding characters: a
# leading "_" next to the "__" separator (the flat key then holds a run of three), leading and
# trailing blanks, a trailing backslash, a lone backslash
KEYS_Y = ("_id", "u", " b", "b ", "c\\", "\\")


class Field(str):
    """A str subclass key (separator-free string carrying extra information)."""

    def __new__(cls, name, note=""):
        self = super().__new__(cls, name)
        self.note = note
        return self


KEYS_F = (Field("a", "first"), Field("b"), Field("x y"))


def str_subclass_trees():
    out = []
    for n in (1, 2, 3):
        out += [(n, m) for m in trees(n, 3, KEYS_F)]
    return out


def cross_separator_trees():
    out = []
    for n in (1, 2):
        out += [(n, m) for m in trees(n, 2, KEYS_X)]
    return out


def awkward_name_trees():
    out = []
    for n in (1, 2):
        out += [(n, m) for m in trees(n, 3, KEYS_Y)]
    out += [(3, m) for m in trees(3, 2, KEYS_Y[:4])]
    return out


def mapping_type_cases(acc):
    """The flat mapping handed in is an OrderedDict (and the expected nested mapping is built from
    OrderedDicts): the result must equal it for EVERY order of the flat keys - plain dict
    equality, whatever mapping type comes back."""
    import collections
    OD = collections.OrderedDict
    nested = OD([("a", OD([("b", 1), (optional("c"), 2)])), ("d", OD([("e", OD([("f", 3)]))])), ("g", 4)])
    plain = {"a": {"b": 1, optional("c"): 2}, "d": {"e": {"f": 3}}, "g": 4}
    for sep in SEPS:
        flat = list(flatten(plain, sep).items())
        for perm in itertools.permutations(flat):
            acc.count("cases")
            acc.count("ordered_mapping_cases")
            try:
                got = rollout(OD(perm), separator=sep)
            except Exception as e:  # noqa: BLE001
                got = e
            if not (isinstance(got, dict) and got == nested and nested == got and same(got, plain)):
                acc.violation("C18|rollout-of-an-ordered-mapping-differs",
                              {"flat": safe_repr(OD(perm), 300), "separator": sep, "got": safe_repr(got, 300),
                               "mapping_type": True})
                return


def worker(shard, nshards, tier, seed):
    acc = Acc()
    T = tree_list(tier)
    if shard == 0:
        # all in one process, twice (each flat key string is met under every separator, in both
        # orders of first encounter)
        X = cross_separator_trees()
        for n, m in X + X[::-1]:
            acc.count("cross_separator_trees")
            check_tree(n, m, acc)
        mapping_type_cases(acc)
    Y = awkward_name_trees()
    for i in range(shard, len(Y), nshards):
        acc.count("awkward_name_trees")
        check_tree(Y[i][0], Y[i][1], acc)
    F = str_subclass_trees()
    for i in range(shard, len(F), nshards):
        acc.count("str_subclass_key_trees")
        check_tree(F[i][0], F[i][1], acc)
    for i in range(shard, len(T), nshards):
        n, m = T[i]
        acc.count("trees")
        if n > 1:
            acc.count("trees_with_several_leaves")
        check_tree(n, m, acc)
        acc.outcome(i)
        if i % 2503 == 0:
            acc.sample({"tree": safe_repr(realize(m, set(), [0]), 200), "leaves": n})
    return acc


def run(tier, seed):
    acc = parallel(worker, tier, seed)
    cov = {
        "states": acc.n["trees"],
        "transitions": acc.n["cases"],
        "traces_validated_against_impl": acc.n["cases"],
        "evaluations": acc.n["cases"],
        "distinct_nontrivial": acc.n["trees_with_several_leaves"],
        "rule": "every nested mapping with <= N leaves and depth <= D x every subset of optional "
                "leaves x 3 separators x top-level ... x every permutation of the flat keys; "
                "non-trivial = more than one leaf",
        "exhaustive": True,
        "bounds": {"tier": tier, "max_leaves": BOUND[tier][0], "max_depth": BOUND[tier][1],
                   "keys": KEYS, "separators": SEPS,
                   "also": ("4 leaves, depth 2, keys " + repr(KEYS_T)) if tier == "thorough" else None,
                   "cross_separator_keys": list(KEYS_X),
                   "str_subclass_key_trees": acc.n["str_subclass_key_trees"]},
    }
    return acc, cov, ["mappings whose flattening makes two leaves collide on one flat key (only "
                      "possible with the empty key) are skipped",
                      "leaves are compared by identity"]


def _tup(x):
    return tuple(_tup(y) for y in x) if isinstance(x, list) else x


def replay(case):
    acc = Acc()
    if case.get("mapping_type"):
        mapping_type_cases(acc)
        return list(acc.viol)
    check_tree(case["leaves"], _tup(case["tree"]), acc)
    return list(acc.viol)
