"""C11 - constraint refinements can be declared in any order.

Every set of 1..3 (thorough: 4) refinements with distinct methods and parameters from the
boundary alphabet, optionally after a fixed value / element list; ALL permutations of each set;
the outcomes (rejected | structural fingerprint) must coincide.
"""
import itertools

from d42 import schema
from d42.declaration import DeclarationError

from .. import e1
from ..common import safe_repr
from ..runner import Acc, parallel
from .. import terms
from ..terms import E, fp
from ..universe import INT, S, STR, call

I1 = e1.Sch(S("int", call(1)))
SA = e1.Sch(S("str", call("a")))


FRESH_NAN = e1.codec.register("c11_fresh_nan", type("FreshNan", (), {"__repr__": lambda self: "<fresh nan>"})())


def menus(tier):
    T = tier == "thorough"
    ns = (0, 1, 2, 3) + ((33,) if T else ())
    pairs = ((0, 1), (1, 2), (2, 3), (1, 3)) + (((2, 1), (0, 0)) if T else ())
    # ((1, 2),) / ((),): ONE wrong-typed argument that is a tuple - rejected in every order, and in
    # the same way (a message built with % formatting chokes on a tuple operand)
    str_len = [(n,) for n in ns] + [(n, E) for n in ns] + [(E, n) for n in ns] + list(pairs) \
        + [((1, 2),), ((),)]
    lst_len = [(n,) for n in (0, 1, 2, 3)] + [(n, E) for n in (0, 1, 2)] + [(E, n) for n in (1, 2, 3)] \
        + [(1, 2), (1, 3), ((1, 2),), (E, ())]
    return {
        "int": {"refs": {"min": [(0,), (7,), (-1,), (8,), ((1, 2),), (10 ** 400,)],
                         "max": [(0,), (7,), (-1,), (8,), ((),), (-10 ** 400,)]},
                "values": [None, 0, 7] + ([True] if T else [])},
        # 1.49 / 1.51 differ from the value 1.5 only beyond precision 1; 1.46 rounds to 1.5
        # FRESH_NAN becomes a new float('nan') object every time it is applied
        "float": {"refs": {"min": [(0.15,), (1.5,), (2.5,), (1.51,), (1.49,), (FRESH_NAN,)],
                           "max": [(0.15,), (1.5,), (2.5,), (1.49,), (1.51,), (FRESH_NAN,)],
                           "precision": [(1,), (2,), ((1, 2),)] + ([(15,), (0,)] if T else [])},
                  "values": [None, 1.5, 0.2, 1.46]},
        # "len2" is a SECOND application of len (another form): re-declaring a length is rejected
        # whichever of the two forms comes first
        "str": {"refs": {"len": str_len, "len2": [(0,), (2,), (0, E), (E, 0), (E, 3), (E, E)],
                         "alphabet": [("",), ("a",), ("ab",), ("ab" * 100,)],
                         # "ba": every letter is in the alphabet "ab", the string is not a slice of it
                         "contains": [("",), ("a",), ("ab",), ("c",), ("ba",)],
                         "regex": [("a",), ("[ab]+",), ("^a.$",), ("a{2}",), ("*",),
                                   ("a{99999999999999999999}",)]},
                # the last two: a pinned value / alphabet long enough for any line-wrapping of literals
                "values": [None, "", "a", "ab", "abc", "{id}", "ab" * 60]},
        # a user subclass of StrSchema whose len() refuses lengths above 2
        "capped_str": {"refs": {"len": [(1,), (3,), (1, E), (3, E), (E, 3), (1, 3)],
                                "alphabet": [("ab",)], "contains": [("a",), ("",)],
                                "regex": [("a",)]},
                       "values": [None, "a", "abc"]},
        "list": {"refs": {"len": lst_len, "len2": [(0,), (2,), (0, E), (E, 0), (E, 3), (1, 2), (E, E)]},
                 "values": [None, e1.Sch(INT), [], [I1], [I1, SA], [I1, E], [E, I1], [E, I1, E], [E]]},
    }


def enumerate_sets(tier):
    """Yields (kind, value, ((method, args), ...)) for every refinement set."""
    maxk = 4 if tier == "thorough" else 3
    for kind, m in menus(tier).items():
        methods = sorted(m["refs"])
        for k in range(1, min(maxk, len(methods)) + 1):
            for combo in itertools.combinations(methods, k):
                for params in itertools.product(*[m["refs"][x] for x in combo]):
                    refs = tuple(zip(combo, params))
                    for v in m["values"]:
                        yield kind, v, refs


def outcome(kind, value, order, wpos=None):
    if kind == "capped_str":
        from ..fwdtype import CappedStr
        s = CappedStr()
    else:
        s = getattr(schema, kind)
    try:
        if value is not None:
            s = s(e1.realise(value))
        for j, (method, args) in enumerate(order):
            if j == wpos:
                terms.warm(s)       # the partial declaration is used (==, repr, ...) before refining
            args = tuple(float("nan") if a is FRESH_NAN else a for a in args)
            s = getattr(s, "len" if method == "len2" else method)(*args)
    except DeclarationError:
        return "rejected", None
    except Exception as e:  # noqa: BLE001
        return f"raises:{type(e).__name__}", None
    return fp(s), s


def describe(refs):
    out = []
    for m, a in refs:
        if m in ("len", "len2"):
            form = "len(n)" if len(a) == 1 else ("len(n,...)" if a[1] is E else
                                                 ("len(...,n)" if a[0] is E else "len(a,b)"))
            out.append(form)
        else:
            out.append(m)
    return "+".join(sorted(out))


def judge(kind, value, refs):
    seen = {}
    objs = []
    # warm mode: each order once per position at which the partial declaration is exercised
    # (exercising it at every step at once would give every result the same cached state)
    wposs = range(len(refs)) if terms.WARM else (None,)
    for order in itertools.permutations(refs):
        for wpos in wposs:
            o, s = outcome(kind, value, order, wpos)
            seen.setdefault(o, order)
            if s is not None:
                objs.append(s)
    if len(seen) > 1:
        kinds = sorted("accepted" if isinstance(k, tuple) else k for k in seen)
        return f"C11|order-dependent:{'/'.join(kinds)}|{kind}{'(value)' if value is not None else ''}.{describe(refs)}", seen
    # equal fingerprints must also be equal under d42's own == (the property says "equal schemas")
    for s in objs[1:]:
        try:
            same = (objs[0] == s) is True and (s == objs[0]) is True and (objs[0] != s) is False
        except Exception as e:  # noqa: BLE001
            same = f"raises {type(e).__name__}"
        if same is not True:
            return (f"C11|same-structure-but-not-equal-by-==:{same}|{kind}"
                    f"{'(value)' if value is not None else ''}.{describe(refs)}"), seen
    return None, seen


def worker(shard, nshards, tier, seed):
    acc = Acc()
    for i, (kind, v, refs) in enumerate(enumerate_sets(tier)):
        if i % nshards != shard:
            continue
        acc.count("sets")
        nperm = 1
        for j in range(2, len(refs) + 1):
            nperm *= j
        acc.count("chains", nperm)
        if len(refs) > 1:
            acc.count("sets_with_several_orders")
        sig, seen = judge(kind, v, refs)
        acc.outcome((kind, describe(refs), tuple(sorted("a" if isinstance(k, tuple) else k for k in seen))))
        if "rejected" in seen and len(seen) == 1:
            acc.count("sets_rejected_in_all_orders")
        if sig:
            acc.violation(sig, {"kind": kind, "value": e1.arg_src(v),
                                "refs": [[m, e1.arg_src(a)] for m, a in refs],
                                "orders": {("accepted " + safe_repr(k, 80) if isinstance(k, tuple) else k):
                                           [m for m, _ in o] for k, o in seen.items()}})
        if i % 4001 == 0:
            acc.sample({"type": kind, "value": e1.arg_src(v),
                        "refinements": [[m, e1.arg_src(a)] for m, a in refs], "orders": nperm})
    return acc


def run(tier, seed):
    acc = parallel(worker, tier, seed, warm_pass=True)
    cov = {
        "states": acc.n["sets"],
        "transitions": acc.n["chains"],
        "traces_validated_against_impl": acc.n["chains"],
        "evaluations": acc.n["chains"],
        "distinct_nontrivial": acc.n["sets_with_several_orders"],
        "rule": "every set of refinements with distinct methods (int: min,max; float: +precision; "
                "str: len forms, alphabet, contains, regex; list: len forms) x optional prior value, "
                "all permutations; non-trivial = set with more than one order",
        "exhaustive": True,
        "bounds": {"tier": tier, "max_set_size": 4 if tier == "thorough" else 3},
    }
    return acc, cov, ["outcomes are compared by structural fingerprint (and rejection), results of "
                      "the orders additionally by d42's own == in both directions"]


def replay(case):
    refs = tuple((m, e1.arg_unsrc(a)) for m, a in case["refs"])
    sig, _ = judge(case["kind"], e1.arg_unsrc(case["value"]), refs)
    return sig
