"""One enumeration, three oracles: C04 (pins), C05 (narrows), C12 (error type, usable, idempotent)."""
from niltype import Nil

from d42.declaration import Schema
from d42.substitution.errors import SubstitutionError
from d42.declaration.types import DictSchema

from .. import e2
from .. import model as M
from ..codec import src, unsrc
from ..common import safe_repr, shard_items, tname
from ..runner import Acc, parallel, parallel_fresh
from ..values import cp
from ..subst import (carries, clean, generated, is_plain, subst_values, third_values, try_subst)
from ..terms import E, fp, show, try_build
from ..universe import INT, NONE, S, STR, call, ln, universe

GEN_D = {"quick": 1, "thorough": 2}


def extra_terms(tier):
    """Shapes the substitutor treats specially, beyond the common universe."""
    d_rel = ("dict", (("a", False, INT),), True)
    d_ab = ("dict", (("a", False, INT), ("b", True, S("str", call("ab")))), False)
    mn = S("int", ("min", 0), ("max", 7))
    out = [
        ("any", (d_rel,)), ("any", (d_rel, NONE)), ("any", (d_ab, d_rel)),
        ("list", ("elems", (E, d_rel, E)), ()), ("list", ("elems", (E, INT, E)), ()),
        ("list", ("elems", (E, INT, STR, E)), ()), ("list", ("elems", (E, mn, E)), ()),
        ("list", ("typed", d_ab), ()), ("list", ("typed", d_rel), (ln(1, 3),)),
        ("dict", (("a", False, ("list", ("elems", (E, INT, E)), ())),), False),
        ("dict", (("a", False, d_rel), ("b", True, d_ab)), True),
        ("dict", (("a", False, ("any", (d_rel, INT))),), False),
        ("dict", (), True), ("dict", (), False),
        ("list", ("typed", ("any", (INT, STR))), ()), ("any", (("list", ("typed", INT), ()), INT)),
        ("alias", "A", d_ab), ("alias", "A", ("list", ("elems", (E, INT, E)), ())),
        ("list", ("typed", S("float", ("min", 0.15), ("max", 0.35))), ()),
        ("dict", (("a", True, S("float", call(1.5), ("precision", 1))),), False),
        ("any", None), ("list", None, ()), ("list", None, (ln(1, 2),)),
        ("list", ("elems", (E,)), ()), ("list", ("elems", (INT, E)), (ln(3),)),
    ]
    # falsy members: None, 0, "", False, [], {} given for a declared key must still be pinned
    nullable = ("any", (NONE, INT))
    out += [
        ("dict", (("a", False, nullable), ("b", True, NONE)), False),
        ("dict", (("a", True, INT), ("b", True, STR), ("c", True, S("bool"))), False),
        ("dict", (("a", True, ("list", ("typed", INT), ())), ("b", True, ("dict", None, False))), True),
        ("dict", (("a", False, ("dict", (("x", True, nullable), ("y", True, INT)), False)),), False),
        ("list", ("typed", nullable), ()), ("list", ("elems", (NONE, INT, E)), ()),
        ("dict", (("a", True, S("float")), ("b", True, S("bytes"))), False),
    ]
    # windows of two elements whose first one is a dict (it substitutes partially at a false start)
    d_req = ("dict", (("a", False, INT), ("b", False, INT)), False)
    out += [("list", ("elems", (E, d_req, STR, E)), ()), ("list", ("elems", (E, d_ab, d_rel, E)), ())]
    if tier == "thorough":
        out += [("any", (("list", ("elems", (E, INT, E)), ()), ("list", ("typed", STR), ()))),
                ("dict", (("a", False, ("dict", (("b", False, d_rel),), False)),), False),
                ("list", ("typed", ("list", ("elems", (E, INT)), ())), ())]
    return out


def all_terms(tier):
    # (the parametrised user types of the universe substitute to themselves - what a user type
    # does with a substituted value is the user's business - so they are left out here)
    return [t for t in list(universe(tier)) + extra_terms(tier)
            if "'mult'" not in repr(t) and "'nmult'" not in repr(t)]


def kept_keys_ok(s, r, v):
    """C04: keys of S absent from v keep their member schema and optionality, at every depth."""
    while not isinstance(s, DictSchema) and isinstance(s, Schema) and "type" in list(s.props) \
            and type(s).__name__.endswith("AliasSchema"):
        s, r = s.props.type, r.props.type
    if not (isinstance(s, DictSchema) and isinstance(r, DictSchema) and isinstance(v, dict)):
        return True
    sk, rk = s.props.keys, r.props.keys
    if sk is Nil or rk is Nil:
        return True
    if len(sk) == 1 and E in sk:
        return True
    for k, (sub, opt) in sk.items():
        if k is E:
            continue
        if k not in rk:
            return f"key {k!r} lost"
        rsub, ropt = rk[k]
        if k not in v:
            if fp(rsub) != fp(sub) or ropt != opt:
                return f"unspecified key {k!r} changed"
        else:
            inner = kept_keys_ok(sub, rsub, v[k])
            if inner is not True:
                return inner
    return True


def has_huge(v):
    if type(v) is int:
        return v.bit_length() > 15000
    if isinstance(v, (list, tuple)):
        return any(has_huge(x) for x in v)
    if isinstance(v, dict):
        return any(has_huge(k) or has_huge(x) for k, x in v.items())
    return False


def examine(t, s, v, tier, rng, want):
    """All violations (prop, sig-tail, detail) for one (schema, value)."""
    out = []
    given = v
    v = cp(v)             # the oracles look at the value as it was given (a dict subclass with
    res = try_subst(s, given)   # __missing__ may be changed by a mere lookup)
    tcls = show(t)
    # equivalent spellings must agree: `s % v` is substitute(s, v) (same result structure, or
    # the same kind of failure), whatever the value
    if "C12" in want:
        try:
            r2 = ("ok", s % cp(v))
        except SubstitutionError:
            r2 = ("suberr",)
        except Exception as e:  # noqa: BLE001
            r2 = ("exc", type(e).__name__)
        same = (r2[0] == res[0]) and (res[0] != "exc" or r2[1] == res[1]) \
            and (res[0] != "ok" or not isinstance(res[1], Schema) or not isinstance(r2[1], Schema)
                 or fp(r2[1]) == fp(res[1]))
        if not same:
            out.append(("C12", f"percent-operator-differs-from-substitute|{tcls}|{tname(v)}",
                        f"substitute: {res[0]} / %: {r2[0]}"))
    # the caller changes the container it has just substituted (in place) and substitutes it again:
    # the outcome is that of substituting a fresh, equal container
    if "C05" in want and isinstance(given, (list, dict)) and type(given) in (list, dict):
        try:
            if isinstance(given, list):
                given.append("q")
            else:
                given["zz"] = "q"
            again = try_subst(s, given)
            fresh = try_subst(s, cp(given))
            same2 = again[0] == fresh[0] and (again[0] != "ok" or not isinstance(again[1], Schema)
                                              or fp(again[1]) == fp(fresh[1]))
            if not same2:
                out.append(("C05", f"changed-container-substituted-again-differs-from-a-fresh-one|{tcls}|{tname(v)}",
                            f"again: {again[0]} fresh: {fresh[0]}"))
        except Exception:  # noqa: BLE001
            pass
    if res[0] == "exc":
        if "C12" in want:
            kind = tname(v) + ("|contains-int-over-4300-digits" if has_huge(v) else "")
            out.append(("C12", f"raises:{res[1]}|{tcls}|{kind}", res[2]))
        return out, res
    if res[0] == "suberr":
        return out, res
    r = res[1]
    if not isinstance(r, Schema):
        out.append(("C12", f"returned-non-schema|{tcls}", safe_repr(r)))
        return out, res
    plain = is_plain(v)
    # "carries the substituted data": floats within one coarsest grid step where the schema
    # declares a precision somewhere, otherwise only within math.isclose's relative band
    ctol = (0.1 + 1e-9) if "precision" in repr(t) else 0.0
    conf = clean(s, v)
    thirds = third_values(t, v, tier)
    gens, _ = generated(rng, r, GEN_D[tier])
    accepted = []
    for w in thirds:
        cr = clean(r, w)
        # `schema == value` is the library's other way of asking "does it accept": it may not say
        # yes where the original schema says no
        if plain and "C05" in want:
            try:
                eqv = (r == w) is True
            except Exception:  # noqa: BLE001
                eqv = False
            if eqv and cr is not True:
                out.append(("C05", f"result-equals-value-it-rejects|{tcls}|{tname(v)}", f"w={src(w)}"))
            elif eqv and clean(s, w) is not True:
                out.append(("C05", f"widened-through-eq|{tcls}|{tname(v)}", f"w={src(w)}"))
        if cr is True:
            accepted.append(w)
            if plain:
                if "C05" in want:
                    cs = clean(s, w)
                    if cs is not True:
                        out.append(("C05", f"widened|{tcls}|{tname(v)}", f"w={src(w)} original:{cs}"))
                if "C04" in want and not carries(v, w, ctol):
                    out.append(("C04", f"accepts-value-not-carrying-v|{tcls}|{tname(v)}", f"w={src(w)}"))
        elif cr is not False and "C12" in want:
            out.append(("C12", f"result-validate-{cr}|{tcls}|{tname(v)}", f"w={src(w)}"))
    gen_ok = False
    for o in gens:
        if o[0] == "exc":
            if "C12" in want:
                out.append(("C12", f"result-cannot-generate:{o[1]}|{tcls}|{tname(v)}", o[2]))
            continue
        g = o[1]
        gen_ok = True
        cg = clean(r, g)
        # C04: whatever the result generates carries v (whether or not it also validates: a
        # generated value that the result itself rejects is C01's business)
        if plain and "C04" in want and not carries(v, g, ctol):
            out.append(("C04", f"generates-value-not-carrying-v|{tcls}|{tname(v)}", f"g={src(g)}"))
        if "C12" in want and cg is not True:
            # usable: whatever the result generates, the result itself accepts
            out.append(("C12", f"result-rejects-its-own-generated-value|{tcls}|{tname(v)}", f"g={src(g)} {cg}"))
        if plain and "C04" in want and cg is not True:
            # "the resulting schema is usable": it accepts what it generates itself
            out.append(("C04", f"result-rejects-its-own-generated-value|{tcls}|{tname(v)}", f"g={src(g)} {cg}"))
        if cg is True:
            if plain and "C05" in want and clean(s, g) is not True:
                out.append(("C05", f"widened-by-generated|{tcls}|{tname(v)}", f"g={src(g)}"))
            accepted.append(g)
    if "C12" in want and not accepted:
        out.append(("C12", f"result-accepts-nothing|{tcls}|{tname(v)}", safe_repr(r)))
    if plain:
        if "C04" in want:
            if conf is True and clean(r, v) is not True:
                out.append(("C04", f"result-rejects-conforming-v|{tcls}|{tname(v)}", safe_repr(r)))
            kk = kept_keys_ok(s, r, v)
            if kk is not True:
                out.append(("C04", f"unspecified-key-changed|{tcls}|{tname(v)}", kk))
        if "C12" in want:
            again = try_subst(r, v)
            if again[0] != "ok":
                out.append(("C12", f"resubstitution-fails:{again[1] if again[0]=='exc' else 'SubstitutionError'}|{tcls}|{tname(v)}", again[-1]))
            else:
                try:
                    same = (again[1] == r)
                except Exception as e:  # noqa: BLE001
                    same = f"raises {type(e).__name__}"
                if same is not True:
                    out.append(("C12", f"not-idempotent|{tcls}|{tname(v)}", safe_repr(again[1])))
                elif fp(again[1]) != fp(r):
                    # equal by ==, different structure: reported separately, weaker evidence
                    out.append(("C12", f"idempotent-by-eq-but-structure-differs|{tcls}|{tname(v)}",
                                safe_repr(again[1])))
    return out, res


def _has_alias(t):
    from ..terms import subterms
    return any(st[0] == "alias" for st in subterms(t))


def worker(shard, nshards, tier, seed, prop, mode="shard"):
    acc = Acc()
    rng = e2.Scripted(seed)
    want = {prop}
    with e2.installed(rng):
        e2.self_test(rng)
        todo = list(shard_items(all_terms(tier), shard, nshards))
        if mode == "one-process":
            # every term with a named alias in it (many share a name) plus every 9th other term in
            # ONE process, forwards then backwards: what the substitutor keeps between calls meets
            # another schema under the same name / value
            allt = list(enumerate(all_terms(tier)))
            todo = [(i, t) for i, t in allt if _has_alias(t) or i % 9 == 0]
            todo = todo + todo[::-1]
        for i, t in todo:
            s, err = try_build(t)
            if s is None:
                acc.count("build_failed")
                continue
            acc.count("schemas")
            vals = subst_values(t, tier, placeholders=(prop == "C12"))
            if prop != "C12":
                vals = [v for v in vals if is_plain(v)]
            if mode == "one-process":
                vals = vals[:40]
            nok = 0
            for v in vals:
                acc.count("substitutions")
                found, res = examine(t, s, v, tier, rng, want)
                acc.n["outcome:" + res[0]] += 1
                nok += res[0] == "ok"
                acc.outcome((i, res[0], tname(v)))
                for p, sig, detail in found:
                    if p == prop:
                        acc.violation(f"{p}|{sig}", {"term": src(t), "term_show": show(t),
                                                     "value": src(v), "detail": detail, "tier": tier,
                                                     "seed": seed})
            if 0 < nok < len(vals):
                acc.count("schemas_with_both_outcomes")
            if i % 89 == 0:
                acc.sample({"schema": show(t), "values": len(vals), "substituted_ok": nok})
    return acc


def run(prop, tier, seed):
    acc = parallel(worker, tier, seed, extra=(prop,), warm_pass=True)
    one = parallel_fresh(worker, tier, seed, nshards=1, extra=(prop, "one-process"))
    one.n = type(one.n)({"one_process:" + k: c for k, c in one.n.items()})
    one.outcomes = set()
    acc.merge(one)
    cov = {
        "states": acc.n["schemas"],
        "transitions": acc.n["substitutions"],
        "traces_validated_against_impl": acc.n["substitutions"],
        "evaluations": acc.n["substitutions"],
        "distinct_nontrivial": acc.n["outcome:ok"],
        "rule": "universe term x S(T) (V(T), partial dicts at every depth, unconvertible members at "
                "every position" + (", placeholders" if prop == "C12" else "") + "); for each success: "
                "third values V(T) + perturb(v) + every generated value with <= D RNG deviations; "
                "non-trivial = substitution succeeded",
        "exhaustive": True,
        "bounds": {"tier": tier, "gen_deviation_bound": GEN_D[tier]},
        "one_process_pass": {"schemas_forwards_and_backwards": acc.n["one_process:schemas"],
                             "substitutions": acc.n["one_process:substitutions"]},
    }
    return acc, cov, ["float leaves are compared with an absolute tolerance of 0.1 (coarsest grid)",
                      "nan is not in the alphabets"]


def replay(prop, case):
    t, v = unsrc(case["term"]), unsrc(case["value"])
    s, err = try_build(t)
    if s is None:
        return f"build failed {err!r}"
    rng = e2.Scripted(case.get("seed", 0))
    with e2.installed(rng):
        found, _ = examine(t, s, v, case.get("tier", "quick"), rng, {prop})
    return [f"{p}|{sig}" for p, sig, _ in found if p == prop]
