"""C01 - generated data always validates against its own schema.

For every hereditarily satisfiable term of the universe (declared, combined, substituted):
every RNG script within the deviation bound (whole tree when small) -> fake() must return and
the value must validate cleanly (real validator) and be accepted by the reference model.
"""
from d42 import fake, optional, validate

from .. import e2
from .. import model as M
from ..codec import src, unsrc
from ..common import shard_items
from ..runner import Acc, parallel, parallel_fresh
from ..terms import show, size, try_build, unique_subterms
from ..universe import universe

BOUNDS = {"quick": {"D": 2, "full_cap": 1500, "max_execs": 60000},
          "thorough": {"D": 3, "full_cap": 20000, "max_execs": 400000}}


def subst_terms(tier):
    """S % v for the successful substitutions of witnesses / partial values (see C04)."""
    try:
        from .c04 import subst_cases
    except ImportError:
        return []
    return [("subst", t, v) for t, v in subst_cases(tier, for_generation=True)]


_TERMS = {}


def terms_for(tier):
    # computed once in the parent before the pool forks, inherited by every worker
    if tier not in _TERMS:
        _TERMS[tier] = list(universe(tier)) + subst_terms(tier)
    return _TERMS[tier]


def eligible(t):
    if t[0] == "subst":
        return M.hsat(t[1])
    return M.hsat(t)


def examine(rng, t, s, b, first_only=False):
    """Explores fake(s); returns (info, {rawkind: (script, detail)}, executions, outcomes)."""
    found = {}
    outcomes = set()
    modelled = t[0] != "subst"
    gen = e2.explore(rng, lambda: fake(s), b["D"], b["full_cap"], b["max_execs"])
    n = 0
    info = None
    while True:
        try:
            script, sites, out = next(gen)
        except StopIteration as stop:
            info = stop.value
            break
        n += 1
        if out[0] == "exc":
            kind = f"fake-raises:{out[1]}"
            found.setdefault(kind, (script, out[2]))
        else:
            v = out[1]
            try:
                errs = validate(s, v).get_errors()
            except Exception as e:  # noqa: BLE001
                errs = None
                found.setdefault(f"validate-raises:{type(e).__name__}", (script, src(v)))
            if errs:
                kinds = ",".join(sorted({type(e).__name__.replace("ValidationError", "")
                                         for e in errs}))
                found.setdefault(f"invalid:{kinds}", (script, src(v)))
            elif errs is not None and modelled and "nan" not in src(v):
                # (a generated nan against min / max is left to the validator alone: whether nan
                # lies "within" a bound has no agreed meaning, see section 8)
                try:
                    if not M.accepts(t, v):
                        found.setdefault("model-rejects-generated", (script, src(v)))
                except M.ModelGap:
                    pass
            try:
                outcomes.add(repr(v))
            except Exception:  # noqa: BLE001
                pass
        if first_only and found:
            break
    return info, found, n, outcomes


def minimise(rng, t, rawkind, b):
    """Smallest hereditarily satisfiable sub-term that shows the same kind of violation."""
    if t[0] == "subst":
        return t
    best = t
    small = dict(b, max_execs=4000, full_cap=400)
    for st in unique_subterms(t):
        if st == t or size(st) >= size(best) or not M.hsat(st):
            continue
        s, _ = try_build(st)
        if s is None:
            continue
        _, found, _, _ = examine(rng, st, s, small)
        if rawkind in found:
            return st
    return best


def second_instances():
    """Other, differently configured instances of the generation classes exist in the process and
    have been used (public constructors; what they produce is not judged).  fake() uses the
    module-level default instances and must be unaffected."""
    from d42 import schema
    from d42.generation import Generator, Random, RegexGenerator
    rg = RegexGenerator(Random(), alphabet={"digits": "0123456789abcdef", "word": "ab-", "letters": "ab~"}, max_repeat=3)
    g = Generator(Random(), rg)
    for sch in (schema.str.regex("\\d\\w+[^a]"), schema.list(schema.str.alphabet("xy")).len(1),
                schema.dict({"a": schema.int, optional("b"): schema.float.precision(1)})):
        try:
            sch.__accept__(g)
        except Exception:  # noqa: BLE001
            pass


RNG_FULL = e2.Scripted(0, full_choice=True)
FULL_KINDS = set()


def _has_regex(t):
    return "'regex'" in repr(t)


def worker(shard, nshards, tier, seed, mode="shard"):
    acc = Acc()
    b = BOUNDS[tier]
    rng = e2.Scripted(seed)
    with e2.installed(rng):
        e2.self_test(rng)
        mine = [(i, t, False) for i, t in shard_items(terms_for(tier), shard, nshards)]
        # ... and once more (D = 1) after second instances of the generator classes were used;
        # last in the shard, so that everything above runs in a process that never had any
        mine += [(i, t, True) for i, t, _ in mine]
        if mode == "one-process":
            # every schema with a pattern in it, through the one module-level generator of ONE
            # process, forwards and backwards, twice: what the regex generator keeps between
            # generate() calls meets the parse tree of a different pattern
            rx = [(i, t, False) for i, t in enumerate(terms_for(tier)) if _has_regex(t)]
            mine = (rx + rx[::-1]) * 2
            b = dict(b, D=1, full_cap=300)
        for i, t, second in mine:
            if second:
                second_instances()
                b = dict(BOUNDS[tier], D=1, full_cap=200)
            if not eligible(t):
                acc.count("skipped_not_hsat")
                continue
            s, err = try_build(t)
            if s is None:
                acc.count("build_failed")
                continue
            acc.count("schemas_after_second_instances" if second else "schemas")
            info, found, n, outcomes = examine(rng, t, s, b)
            acc.count("executions", n)
            if _has_regex(t) and not second and mode == "shard":
                # pattern schemas once more with EVERY index of every choice() as an answer
                # (one deviation): a single bad letter in an alphabet is a 1-in-100 draw
                with e2.installed(RNG_FULL):
                    _, found2, n2, _ = examine(RNG_FULL, t, s, dict(b, D=1, full_cap=400, max_execs=4000))
                acc.count("executions", n2)
                acc.count("pattern_schemas_with_every_choice_index")
                for k2, v2 in found2.items():
                    found.setdefault(k2, v2)
                    FULL_KINDS.add((repr(t), k2))
            acc.count("exhaustive_schemas", int(info["exhaustive"]))
            if info["capped"]:
                acc.cap("max_execs")
            if len(outcomes) > 1:
                acc.count("schemas_with_several_outcomes")
            for o in outcomes:
                acc.outcome((i, o))
            acc.n["max_choice_points"] = max(acc.n["max_choice_points"], info["max_points"])
            for rawkind, (script, detail) in found.items():
                mt = minimise(rng, t, rawkind, b)
                acc.violation(f"C01|{rawkind}|{show(mt)}",
                              {"term": src(t), "term_show": show(t), "minimal": show(mt),
                               "script": [list(x) for x in script], "detail": detail,
                               "kind": rawkind, "tier": tier, "seed": seed,
                               "second_instances": second,
                               "every_choice_index": (repr(t), rawkind) in FULL_KINDS})
            if i % 61 == 0 and not second:
                acc.sample({"schema": show(t), "executions": n, "distinct_values": len(outcomes),
                            "whole_tree": info["exhaustive"], "max_points": info["max_points"]})
    return acc


def reuse_worker(shard, nshards, tier, seed):
    """Short-lived schemas (common.short_lived): each is built, generated from (default script and
    every single deviation) and dropped before the next one of the same shape is built."""
    from ..common import short_lived
    acc = Acc()
    rng = e2.Scripted(seed)
    b = dict(BOUNDS[tier], D=1, full_cap=80, max_execs=300)
    with e2.installed(rng):
        def ex(t, s):
            _, found, n, _ = examine(rng, t, s, b)
            acc.count("short_lived_executions", n)
            for rawkind, (script, detail) in found.items():
                acc.violation(f"C01|{rawkind}|{show(t)}",
                              {"term": src(t), "term_show": show(t), "minimal": show(t),
                               "script": [list(x) for x in script], "detail": detail,
                               "kind": rawkind, "tier": tier, "seed": seed})
        short_lived([t for t in terms_for(tier) if eligible(t)], shard, nshards, acc, ex)
    return acc


def run(tier, seed):
    terms_for(tier)
    acc = parallel(worker, tier, seed, nshards=128, warm_pass=True)
    acc.merge(parallel_fresh(reuse_worker, tier, seed, nshards=16))
    one = parallel_fresh(worker, tier, seed, nshards=1, extra=("one-process",))
    one.n = type(one.n)({"one_process:" + k: c for k, c in one.n.items() if k != "max_choice_points"})
    one.outcomes = set()
    acc.merge(one)
    b = BOUNDS[tier]
    cov = {
        "states": acc.n["schemas"],
        "transitions": acc.n["executions"],
        "traces_validated_against_impl": acc.n["executions"],
        "evaluations": acc.n["executions"],
        "distinct_nontrivial": acc.n["schemas_with_several_outcomes"],
        "rule": "every hereditarily satisfiable universe term (incl. S % v results) x every RNG "
                "script with <= D non-default answers (whole choice tree when it has <= full_cap "
                "leaves); non-trivial = schema with more than one distinct generated value",
        "exhaustive": not acc.caps,
        "bounds": dict(b, tier=tier, max_choice_points_seen=acc.n["max_choice_points"]),
        "schemas_again_after_second_generator_instances": acc.n["schemas_after_second_instances"],
        "one_process_pass": {"pattern_schemas_forwards_and_backwards_twice": acc.n["one_process:schemas"]},
        "short_lived_pass": {"builds": acc.n["short_lived_builds"], "executions": acc.n["short_lived_executions"],
                             "address_reused_by_a_different_schema":
                                 acc.n["address_reused_by_a_different_schema"]},
    }
    return acc, cov, ["RNG answers per draw: both ends, their neighbours, the middle, one seeded "
                      "interior point (choice over <= 4 items: every item)",
                      "unsatisfiable or only vacuously satisfiable schemas are excluded (hsat)",
                      "uuid4/utcnow/today are fixed stand-ins"]


def replay(case):
    t = unsrc(case["term"])
    s, err = try_build(t)
    if s is None:
        return f"build failed: {err!r}"
    rng = e2.Scripted(case.get("seed", 0))
    with e2.installed(rng):
        b = BOUNDS[case.get("tier", "quick")]
        if case.get("second_instances"):
            second_instances()
            b = dict(b, D=1, full_cap=200)
        if case.get("every_choice_index"):
            with e2.installed(RNG_FULL):
                _, found, _, _ = examine(RNG_FULL, t, s, dict(b, D=1, full_cap=400, max_execs=4000))
        else:
            _, found, _, _ = examine(rng, t, s, b)
        if case["kind"] in found:
            return f"C01|{case['kind']}|{case['minimal']}"
    return None
