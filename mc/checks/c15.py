"""C15 - schema equality is structural; schema == value means the value validates.

All ordered pairs over the universe (+ specials), each term against an independent rebuild and
against its single-parameter variants (all pairs inside each variant group), triples for
transitivity.  Equal schemas must have identical verdict vectors.
"""
import itertools

from niltype import Nil

from ..codec import src, unsrc
from ..common import shard_items, verdict
from ..runner import Acc, parallel, parallel_fresh
from ..terms import E, show, try_build
from ..universe import INT, NONE, S, STR, call, universe
from ..values import dedup, value_universe
from ..variants import variants

ANY = ("any", None)
PROBE_LIMIT = {"quick": 80, "thorough": 250}


def specials():
    out = []
    atoms = [ANY, INT, S("int", call(1)), NONE]
    for a, b in itertools.permutations(atoms, 2):
        for items in ((a, b, E), (E, b, a), (E, a, b), (a, b), (E, a, b, E), (b, a, E)):
            out.append(("list", ("elems", items), ()))
    for a in atoms:
        out += [("list", ("elems", (a, E)), ()), ("list", ("elems", (E, a)), ()),
                ("list", ("elems", (E, a, E)), ()), ("list", ("elems", (a,)), ()),
                ("list", ("typed", a), ()), ("any", (a,)), ("alias", "A", a),
                ("dict", (("a", False, a),), False), ("dict", (("a", False, a),), True),
                ("dict", (("a", True, a),), False)]
    out += [("list", None, ()), ("dict", (), False), ("dict", (), True), ("any", (ANY, INT)),
            ("any", (INT, ANY))]
    # pinned floats that validation cannot tell apart pairwise (math.isclose) but that are
    # different declarations: a chain a ~ b ~ c with a !~ c
    for x in (1.0, 1.0000000008, 1.0000000016):
        f = S("float", call(x))
        out += [f, ("list", ("elems", (f,)), ()), ("dict", (("a", False, f),), False)]
    # one instant written under two UTC offsets (aware datetimes compare by instant)
    import datetime as _dt
    for d in (_dt.datetime(2024, 3, 1, 12, 0, tzinfo=_dt.timezone.utc),
              _dt.datetime(2024, 3, 1, 15, 0, tzinfo=_dt.timezone(_dt.timedelta(hours=3))),
              _dt.datetime(2024, 3, 1, 12, 0)):
        f = S("datetime", call(d))
        out += [f, ("dict", (("at", False, f),), False), ("list", ("typed", f), ())]
    # a value that is not equal to itself: a schema pinned to it must still equal itself
    nan = S("float", call(float("nan")))
    out += [nan, ("list", ("elems", (nan,)), ()), ("dict", (("a", False, nan),), False),
            ("any", (nan, NONE)), S("float", call(float("nan")), ("precision", 1))]
    return out


def core(tier):
    seen, out = set(), []
    for t in list(universe(tier)) + specials():
        r = repr(t)
        if r not in seen:
            seen.add(r)
            out.append(t)
    return out


def cls(s):
    return type(s).__name__ + "[" + "+".join(sorted(n for n in s.props if s.props.get(n) is not Nil)) + "]"


def eq3(a, b):
    """(a == b) as a bool, or 'raises:X'."""
    try:
        r = (a == b)
    except Exception as e:  # noqa: BLE001
        return "raises:" + type(e).__name__
    return r if isinstance(r, bool) else f"non-bool:{type(r).__name__}"


def probes(ta, tb, tier):
    va, _ = value_universe(ta, PROBE_LIMIT[tier])
    vb, _ = value_universe(tb, PROBE_LIMIT[tier])
    return dedup(va + vb)


def pair_check(ta, a, tb, b, tier):
    """Violation tails for the ordered pair (a, b)."""
    r = eq3(a, b)
    if not isinstance(r, bool):
        return [f"eq-{r}|{cls(a)}~{cls(b)}"], r
    out = []
    back = eq3(b, a)
    if back != r:
        out.append(f"not-symmetric|{cls(a)}~{cls(b)}")
    try:
        ne = (a != b)
    except Exception as e:  # noqa: BLE001
        ne = "raises:" + type(e).__name__
    if ne is not (not r):
        out.append(f"ne-is-not-negation-of-eq|{cls(a)}~{cls(b)}")
    if r:
        for v in probes(ta, tb, tier):
            if verdict(a, v) != verdict(b, v):
                out.append(f"equal-but-verdicts-differ|{cls(a)}~{cls(b)}")
                break
    return out, r


CUSTOM_PROBES = [1, "a", None, [1], ["a"], {"a": 1}, {"a": "a"}, [], {}, "Bearer", "bearer", ["BEARER"],
                 {"a": "bearer"}, 80, 0, [80], {"a": 80}]


def custom_objects():
    """User-defined schema types (two of them sharing the plain Props class, plus the forwarding
    type of C16) bare and in every container position, next to their built-in counterparts."""
    from d42 import schema
    from .. import fwdtype  # noqa: F401  (registers the types)
    atoms = {"mc_num": lambda: schema.mc_num, "mc_text": lambda: schema.mc_text,
             "fwd(int)": lambda: fwdtype.wrap(schema.int), "fwd(str)": lambda: fwdtype.wrap(schema.str),
             "int": lambda: schema.int, "str": lambda: schema.str,
             # a plain user subclass of a built-in type, undeclared and pinned, next to the built-in
             "Port": lambda: fwdtype.PortSchema(), "Port(80)": lambda: fwdtype.PortSchema()(80),
             "int(80)": lambda: schema.int(80),
             # a user type whose `value` prop is matched case-insensitively
             "Token('Bearer')": lambda: schema.mc_token("Bearer"), "Token": lambda: schema.mc_token}
    shapes = {"{}": lambda x: x, "list({})": lambda x: schema.list(x), "list([{}])": lambda x: schema.list([x]),
              "dict(a: {})": lambda x: schema.dict({"a": x}), "any({}, none)": lambda x: schema.any(x, schema.none),
              "alias({})": lambda x: schema.alias("C", x)}
    out = []
    for sn, mk in shapes.items():
        for an, atom in atoms.items():
            out.append((sn.format(an), lambda mk=mk, atom=atom: mk(atom())))
    return out


def custom_block(acc):
    objs = [(name, mk(), mk) for name, mk in custom_objects()]
    # schema == value means "the value validates" - for user-defined types too, in both operand
    # orders, and != is its negation
    for name, a, _ in objs:
        for v in CUSTOM_PROBES:
            acc.count("comparisons")
            want = verdict(a, v) is True
            try:
                got = ((a == v) is True, (v == a) is True, (a != v) is False, (v != a) is False)
            except Exception as e:  # noqa: BLE001
                got = "raises:" + type(e).__name__
            if got != (want,) * 4:
                acc.violation("C15|custom-types|eq-with-a-value-is-not-validation",
                              {"custom_pair": [name, name], "value": repr(v), "validates": want, "got": repr(got)})
    for (na, a, mka), (nb, b, _) in itertools.product(objs, repeat=2):
        acc.count("comparisons")
        acc.count("custom_type_pairs")
        case = {"custom_pair": [na, nb]}
        r, back = eq3(a, b), eq3(b, a)
        if r != back:
            acc.violation("C15|custom-types|not-symmetric", case)
        try:
            ne = (a != b)
        except Exception as e:  # noqa: BLE001
            ne = "raises:" + type(e).__name__
        if isinstance(r, bool) and ne is not (not r):
            acc.violation("C15|custom-types|ne-is-not-negation-of-eq", case)
        if na == nb and (r is not True or eq3(a, mka()) is not True):
            acc.violation("C15|custom-types|not-equal-to-self-or-rebuild", case)
        if r is True and any(verdict(a, v) != verdict(b, v) for v in CUSTOM_PROBES):
            acc.violation("C15|custom-types|equal-but-verdicts-differ", case)


def shared_object_block(acc):
    """Schemas declared once and REUSED as members (the same object at several positions, on both
    sides of a comparison): lists of three and four members over two shared objects, bare, with a
    trailing `...`, as dict members - equal exactly when the member sequences are."""
    from d42 import schema
    P, L = schema.dict({"x": schema.int}), schema.str("l")
    name = {id(P): "P", id(L): "L"}
    for n in (3, 4):
        seqs = list(itertools.product((P, L), repeat=n))
        for xs, ys in itertools.product(seqs, repeat=2):
            for shape, mk in (("list", lambda m: schema.list(list(m))), ("list+...", lambda m: schema.list(list(m) + [...])),
                              ("dict", lambda m: schema.dict({f"k{i}": x for i, x in enumerate(m)}))):
                if n == 4 and shape != "list":
                    continue
                acc.count("comparisons")
                acc.count("shared_member_pairs")
                a, b = mk(xs), mk(ys)
                want = all(x is y for x, y in zip(xs, ys))
                r = eq3(a, b)
                if r is not want or eq3(b, a) is not want or (a != b) is want:
                    acc.violation(f"C15|shared-members|equality-differs-from-member-sequences|{shape}",
                                  {"shared": True, "left": "".join(name[id(x)] for x in xs),
                                   "right": "".join(name[id(y)] for y in ys), "eq": repr(r)})
                    return


def derivation_block(acc, tier):
    """Deriving from a schema (make_required with and without keys, +, |, %) leaves the operand
    equal to an independent build of its own declaration - equality is about declarations, and
    the operand's declaration has not changed."""
    from d42.utils import make_required
    from ..terms import fp
    from .. import model as M
    for t in core(tier):
        if t[0] != "dict" or t[1] is None:
            continue
        a, _ = try_build(t)
        if a is None:
            continue
        keys = [k for k, _, _ in t[1]]
        before = fp(a)
        derived = []
        for ks in [None] + [[k] for k in keys] + [keys]:
            try:
                derived.append(make_required(a) if ks is None else make_required(a, ks))
            except Exception:  # noqa: BLE001
                pass
        for w in M.witnesses(t)[:2]:
            try:
                derived.append(a % w)
            except Exception:  # noqa: BLE001
                pass
        try:
            derived += [a + a, a | a]
        except Exception:  # noqa: BLE001
            pass
        acc.count("comparisons", 2)
        acc.count("operands_compared_after_deriving")
        fresh, _ = try_build(t)
        if fp(a) != before or eq3(a, fresh) is not True or eq3(fresh, a) is not True:
            acc.violation(f"C15|operand-not-equal-to-rebuild-after-deriving-from-it|{cls(a)}",
                          {"a": src(t), "b": src(t), "a_show": show(t), "b_show": show(t), "tier": tier,
                           "derivation": True})


def replay_custom(case):
    acc = Acc()
    custom_block(acc)
    return sorted(acc.viol)


def reuse_worker(shard, nshards, tier, seed):
    """Short-lived right-hand operands: a long-lived schema is compared with a succession of
    schemas that are built, compared and dropped (later ones reuse the addresses of earlier ones)."""
    acc = Acc()
    C = core(tier)
    from ..common import shape_key
    order = sorted(range(len(C)), key=lambda i: repr(shape_key(C[i])))
    lo, hi = shard * len(order) // nshards, (shard + 1) * len(order) // nshards
    for i in order[lo:hi]:
        ta = C[i]
        a, _ = try_build(ta)
        if a is None:
            continue
        # neighbours of the same shape first (that is where equal and unequal operands alternate)
        near = [j for j in order if shape_key(C[j]) == shape_key(ta)]
        for j in near + order[::7]:
            b, _ = try_build(C[j])
            if b is None:
                continue
            acc.count("short_lived_comparisons")
            r, back = eq3(a, b), eq3(b, a)
            if r != back:
                acc.violation(f"C15|not-symmetric|{cls(a)}~{cls(b)}",
                              {"a": src(ta), "b": src(C[j]), "a_show": show(ta), "b_show": show(C[j]),
                               "tier": tier})
            elif r is True and j != i:
                for v in probes(ta, C[j], tier)[:30]:
                    if verdict(a, v) != verdict(b, v):
                        acc.violation(f"C15|equal-but-verdicts-differ|{cls(a)}~{cls(b)}",
                                      {"a": src(ta), "b": src(C[j]), "a_show": show(ta),
                                       "b_show": show(C[j]), "tier": tier})
                        break
            del b
    return acc


def worker(shard, nshards, tier, seed):
    acc = Acc()
    if shard == 0:
        custom_block(acc)
    if shard == 1 % nshards:
        derivation_block(acc, tier)
    if shard == 2 % nshards:
        shared_object_block(acc)
    C = core(tier)
    built = []
    for t in C:
        s, _ = try_build(t)
        built.append(s)
    idx = [i for i in range(len(C)) if built[i] is not None]

    def case(ta, tb, extra=None):
        d = {"a": src(ta), "b": src(tb), "a_show": show(ta), "b_show": show(tb), "tier": tier}
        if extra:
            d.update(extra)
        return d

    for i, ta in shard_items(C, shard, nshards):
        a = built[i]
        if a is None:
            acc.count("build_failed")
            continue
        acc.count("schemas")
        # reflexive + independent rebuild
        a2, _ = try_build(ta, leave_args=True)
        for other, tag in ((a, "self"), (a2, "rebuild")):
            acc.count("comparisons")
            if eq3(a, other) is not True or eq3(other, a) is not True:
                acc.violation(f"C15|not-equal-to-{tag}|{cls(a)}", case(ta, ta))
            try:
                if (a != other) is not False:
                    acc.violation(f"C15|ne-true-for-{tag}|{cls(a)}", case(ta, ta))
            except Exception as e:  # noqa: BLE001
                acc.violation(f"C15|ne-raises:{type(e).__name__}|{cls(a)}", case(ta, ta))
        # schema == value  <=>  the value validates (both operand orders, and != as negation)
        vals, _ = value_universe(ta, PROBE_LIMIT[tier])
        for v in vals:
            acc.count("comparisons")
            want = verdict(a, v)
            if not isinstance(want, bool):
                continue
            try:
                got = ((a == v), (v == a), (a != v), (v != a))
            except Exception as e:  # noqa: BLE001
                acc.violation(f"C15|schema-vs-value-raises:{type(e).__name__}|{cls(a)}",
                              case(ta, ta, {"value": src(v)}))
                break
            if got != (want, want, not want, not want):
                acc.violation(f"C15|schema-vs-value-differs-from-validate|{cls(a)}|{type(v).__name__}",
                              case(ta, ta, {"value": src(v)}))
                break
        # all ordered pairs (a, b) over the core
        eqset = []
        for j in idx:
            acc.count("comparisons")
            tails, r = pair_check(ta, a, C[j], built[j], tier)
            for tl in tails:
                acc.violation(f"C15|{tl}", case(ta, C[j]))
            if r is True:
                eqset.append(j)
                if j != i:
                    acc.count("equal_distinct_terms")
        acc.outcome((i, len(eqset)))
        # transitivity through every b equal to a
        for j in eqset:
            if j == i:
                continue
            for k in idx:
                acc.count("comparisons")
                if eq3(built[j], built[k]) is True and eq3(a, built[k]) is not True:
                    acc.violation(f"C15|not-transitive|{cls(a)}~{cls(built[j])}~{cls(built[k])}",
                                  case(ta, C[j], {"c": src(C[k]), "c_show": show(C[k])}))
        # variant group: all ordered pairs inside {a} + variants(a)
        group = [(ta, a)]
        seen = {repr(ta)}
        for tv in variants(ta):
            if repr(tv) in seen:
                continue
            seen.add(repr(tv))
            sv, _ = try_build(tv)
            if sv is not None:
                group.append((tv, sv))
        acc.count("variants", len(group) - 1)
        for (tx, x), (ty, y) in itertools.permutations(group, 2):
            acc.count("comparisons")
            tails, r = pair_check(tx, x, ty, y, tier)
            if r is False:
                acc.count("variant_pairs_unequal")
            for tl in tails:
                acc.violation(f"C15|{tl}", case(tx, ty))
        if i % 173 == 0:
            acc.sample({"schema": show(ta), "equal_to": len(eqset), "variants": len(group) - 1})
    return acc


def run(tier, seed):
    acc = parallel(worker, tier, seed, warm_pass=True)
    acc.merge(parallel_fresh(reuse_worker, tier, seed, nshards=16))
    cov = {
        "states": acc.n["schemas"] + acc.n["variants"],
        "transitions": acc.n["comparisons"],
        "traces_validated_against_impl": acc.n["comparisons"],
        "evaluations": acc.n["comparisons"],
        "distinct_nontrivial": acc.n["equal_distinct_terms"] + acc.n["variant_pairs_unequal"],
        "rule": "all ordered pairs over the core universe, self/rebuild pairs, transitivity closure, "
                "and all ordered pairs inside every single-parameter variant group; non-trivial = "
                "equal pairs of distinct terms + unequal variant pairs",
        "exhaustive": True,
        "bounds": {"tier": tier, "probe_values_per_term": PROBE_LIMIT[tier]},
        "custom_type_pairs": acc.n["custom_type_pairs"],
        "short_lived_comparisons": acc.n["short_lived_comparisons"],
    }
    return acc, cov, ["differently built schemas with the same meaning may be equal or unequal",
                      "schema == value <=> validate is checked here in both operand orders (and in C02)"]


def replay(case):
    if "custom_pair" in case:
        return replay_custom(case)
    if case.get("shared"):
        acc = Acc()
        shared_object_block(acc)
        return sorted(acc.viol)
    if case.get("derivation"):
        acc = Acc()
        derivation_block(acc, case.get("tier", "quick"))
        return sorted(acc.viol)
    ta, tb = unsrc(case["a"]), unsrc(case["b"])
    a, _ = try_build(ta)
    b, _ = try_build(tb)
    if a is None or b is None:
        return "no longer builds"
    tails, _ = pair_check(ta, a, tb, b, case.get("tier", "quick"))
    out = [f"C15|{t}" for t in tails]
    if "c" in case:
        c, _ = try_build(unsrc(case["c"]))
        if eq3(a, b) is True and eq3(b, c) is True and eq3(a, c) is not True:
            out.append(True)
    if "value" in case:
        v = unsrc(case["value"])
        want = verdict(a, v)
        if ((a == v), (v == a), (a != v), (v != a)) != (want, want, not want, not want):
            out.append(True)
    elif ta == tb:
        a2, _ = try_build(ta, leave_args=True)
        if eq3(a, a2) is not True or eq3(a, a) is not True or (a != a2):
            out.append(True)
    return True if True in out else out
