"""Turns the values and terms used by the explorers into eval-able Python text and back.

Replay files are JSON; anything that is not JSON (bytes, UUIDs, `...`, Nil, opaque zoo
members, nested tuples of terms) is stored as a Python expression string produced by
`src()` and re-created by `unsrc()` in a fixed namespace.  Opaque objects are referred to by
their registered zoo name so that a replay sees an object of the same kind.
"""
import collections
import types
import datetime as _dt
import decimal
import fractions
import math
import uuid

from niltype import Nil

class StrSub(str):
    pass


class IntSub(int):
    pass


class FloatSub(float):
    pass


class ListSub(list):
    pass


class DictSub(dict):
    pass


class DateTimeSub(_dt.datetime):
    pass


import enum  # noqa: E402


class Tag(str, enum.Enum):
    """A str-mixin enum: its members ARE strs (== "red"), while str(member) is 'Tag.RED'."""
    RED = "red"


# plain subclasses of built-ins (no overrides): an instance IS a str / int / float / list / dict
SUBS = {StrSub: str, IntSub: int, FloatSub: float, ListSub: list, DictSub: dict}

NAMED = {}      # name -> object (opaque / non-literal things)
_BY_ID = {}     # id(object) -> name


def register(name, obj):
    NAMED[name] = obj
    _BY_ID[id(obj)] = name
    return obj


TAG_RED = register("tag_red", Tag.RED)


def src(v):
    """Python expression that rebuilds `v` (structure preserved, named objects by name)."""
    if id(v) in _BY_ID and NAMED[_BY_ID[id(v)]] is v:
        return f"Z[{_BY_ID[id(v)]!r}]"
    if v is None or v is True or v is False:
        return repr(v)
    if v is Ellipsis:
        return "..."
    if v is Nil:
        return "Nil"
    t = type(v)
    if t in SUBS:
        return f"{t.__name__}({src(SUBS[t](v))})"
    if t is int and v.bit_length() > 14000:
        return hex(v)            # decimal conversion of such an int raises ValueError
    if t is int or t is str or t is bytes:
        return repr(v)
    if t is float:
        if math.isnan(v):
            return "float('nan')"
        if math.isinf(v):
            return "float('inf')" if v > 0 else "float('-inf')"
        return repr(v)
    if t is complex:
        return f"complex({v.real!r}, {v.imag!r})"
    if t is list:
        return "[" + ", ".join(src(x) for x in v) + "]"
    if t is tuple:
        return "(" + ", ".join(src(x) for x in v) + ("," if len(v) == 1 else "") + ")"
    if t is dict:
        return "{" + ", ".join(f"{src(k)}: {src(x)}" for k, x in v.items()) + "}"
    if t is set:
        return "set([" + ", ".join(sorted(src(x) for x in v)) + "])"
    if t is frozenset:
        return "frozenset([" + ", ".join(sorted(src(x) for x in v)) + "])"
    if t is bytearray:
        return f"bytearray({bytes(v)!r})"
    if t is range:
        return repr(v)
    if t is uuid.UUID:
        return f"UUID({str(v)!r})"
    if t in (_dt.datetime, _dt.date, _dt.time, _dt.timedelta, _dt.timezone):
        return repr(v)
    if t is decimal.Decimal:
        return f"Decimal({str(v)!r})"
    if t is fractions.Fraction:
        return f"Fraction({v.numerator}, {v.denominator})"
    if t is collections.defaultdict and v.default_factory in (int, list, str, dict, None):
        f = "None" if v.default_factory is None else v.default_factory.__name__
        return f"defaultdict({f}, " + src(dict(v)) + ")"
    if t is collections.Counter:
        return "Counter(" + src(dict(v)) + ")"
    if t is collections.OrderedDict:
        return "OrderedDict(" + src(dict(v)) + ")"
    if t is types.MappingProxyType:
        return "MappingProxyType(" + src(dict(v)) + ")"
    if t is collections.ChainMap:
        return "ChainMap(" + ", ".join(src(m) for m in v.maps) + ")"
    if t.__name__ == "optional" and t.__module__.startswith("d42."):
        return "optional(" + src(v.key) + ")"
    return f"UNREPR({type(v).__name__!r}, {repr(v)[:80]!r})"


class _Unrepr:
    def __init__(self, tname, text):
        self.tname, self.text = tname, text

    def __repr__(self):
        return f"<unreproducible {self.tname} {self.text}>"


def _optional():
    from d42 import optional
    return optional


def namespace():
    return {
        "Z": NAMED, "Nil": Nil, "UUID": uuid.UUID, "datetime": _dt, "Decimal": decimal.Decimal, "Fraction": fractions.Fraction,
        "OrderedDict": collections.OrderedDict, "MappingProxyType": types.MappingProxyType,
        "ChainMap": collections.ChainMap, "optional": _optional(), "defaultdict": collections.defaultdict, "Counter": collections.Counter, "UNREPR": _Unrepr,
        "StrSub": StrSub, "IntSub": IntSub, "FloatSub": FloatSub, "ListSub": ListSub, "DictSub": DictSub,
        "__builtins__": {
            "float": float, "complex": complex, "set": set, "frozenset": frozenset,
            "bytearray": bytearray, "range": range, "int": int, "list": list, "str": str, "dict": dict, "True": True, "False": False, "None": None},
    }


def unsrc(text):
    return eval(text, namespace())  # noqa: S307 - our own replay files only


def short(v, n=160):
    s = src(v) if not isinstance(v, str) or True else v
    return s if len(s) <= n else s[: n - 3] + "..."
