"""Pins the interpreter to the d42 working tree under test.

D42_REPO (default /repo) is put first on sys.path so that `import d42` resolves to the
current working tree (or to a scratch mutant copy during the detection audit) and never to
a stale installed copy.  Nothing is ever written into that tree.
"""
import os
import sys

REPO = os.path.realpath(os.environ.get("D42_REPO", "/repo"))
VERIF = os.path.realpath(os.path.join(os.path.dirname(__file__), ".."))

sys.dont_write_bytecode = True
os.environ.setdefault("PYTHONDONTWRITEBYTECODE", "1")

if REPO in sys.path:
    sys.path.remove(REPO)
sys.path.insert(0, REPO)

if "d42" in sys.modules:  # imported before us from somewhere else: refuse to go on
    _f = os.path.realpath(getattr(sys.modules["d42"], "__file__", "") or "")
    if not _f.startswith(REPO + os.sep):
        raise RuntimeError(f"d42 already imported from {_f}, expected {REPO}")

import warnings  # noqa: E402

warnings.filterwarnings("ignore", category=DeprecationWarning)

import d42  # noqa: E402

_f = os.path.realpath(d42.__file__)
if not _f.startswith(REPO + os.sep):
    raise RuntimeError(f"d42 resolved to {_f}, expected it under {REPO}")
