"""Helpers shared by the checks: verdicts, sharding, diagnosis of the innermost disagreement."""
from d42 import validate

from . import model as M
from .codec import src
from .terms import E, build, show


def verdict(schema, v):
    """True (clean) / False (errors) / 'raises:<Exc>' - never raises."""
    try:
        return not validate(schema, v).has_errors()
    except Exception as e:  # noqa: BLE001
        return "raises:" + type(e).__name__


def shard_items(items, shard, nshards):
    for i in range(shard, len(items), nshards):
        yield i, items[i]


def tname(v):
    return type(v).__name__


def children_pairs(t, v):
    """(sub-term, sub-value) pairs that the meaning of t relates to v."""
    try:
        t = M.resolve(t)
    except M.ModelGap:
        return
    k = t[0]
    if k == "list" and isinstance(v, list) and t[1] is not None:
        if t[1][0] == "typed":
            for x in v:
                yield t[1][1], x
        else:
            for e in t[1][1]:
                if e is not E:
                    for x in v:
                        yield e, x
    elif k == "dict" and isinstance(v, dict) and t[1] is not None:
        for key, _, sub in t[1]:
            try:
                if key in v:
                    yield sub, v[key]
            except TypeError:
                pass
    elif k == "any" and t[1] is not None:
        for x in t[1]:
            yield x, v


def innermost_disagreement(t, v, depth=0):
    """Descends to the smallest (term, value) on which validate() and the model disagree."""
    if depth < 6:
        for st, sv in children_pairs(t, v):
            try:
                s = build(st)
                got = verdict(s, sv)
                exp = M.accepts(st, sv)
            except Exception:  # noqa: BLE001
                continue
            if got != exp:
                return innermost_disagreement(st, sv, depth + 1)
    return t, v


def case_tv(t, v, **extra):
    d = {"term": src(t), "term_show": show(t), "value": src(v)}
    d.update(extra)
    return d


def safe_repr(x, n=200):
    try:
        r = repr(x)
    except Exception as e:  # noqa: BLE001
        r = f"<repr raised {type(e).__name__}>"
    return r if len(r) <= n else r[:n] + "..."
