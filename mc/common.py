"""Helpers shared by the checks: verdicts, sharding, diagnosis of the innermost disagreement."""
from d42 import validate

from . import model as M
from .codec import src
from .terms import E, build, show


def verdict(schema, v, **options):
    """True (clean) / False (errors) / 'raises:<Exc>' - never raises."""
    try:
        return not validate(schema, v, **options).has_errors()
    except Exception as e:  # noqa: BLE001
        return "raises:" + type(e).__name__


def shard_items(items, shard, nshards):
    for i in range(shard, len(items), nshards):
        yield i, items[i]


def tname(v):
    return type(v).__name__


def children_pairs(t, v):
    """(sub-term, sub-value) pairs that the meaning of t relates to v."""
    try:
        t = M.resolve(t)
    except M.ModelGap:
        return
    k = t[0]
    if k == "list" and isinstance(v, list) and t[1] is not None:
        if t[1][0] == "typed":
            for x in v:
                yield t[1][1], x
        else:
            for e in t[1][1]:
                if e is not E:
                    for x in v:
                        yield e, x
    elif k == "dict" and isinstance(v, dict) and t[1] is not None:
        for key, _, sub in t[1]:
            try:
                if key in v:
                    yield sub, v[key]
            except TypeError:
                pass
    elif k == "any" and t[1] is not None:
        for x in t[1]:
            yield x, v


def innermost_disagreement(t, v, depth=0):
    """Descends to the smallest (term, value) on which validate() and the model disagree."""
    if depth < 6:
        for st, sv in children_pairs(t, v):
            try:
                s = build(st)
                got = verdict(s, sv)
                exp = M.accepts(st, sv)
            except Exception:  # noqa: BLE001
                continue
            if got != exp:
                return innermost_disagreement(st, sv, depth + 1)
    return t, v


def case_tv(t, v, **extra):
    d = {"term": src(t), "term_show": show(t), "value": src(v)}
    d.update(extra)
    return d


def safe_repr(x, n=200):
    try:
        r = repr(x)
    except Exception as e:  # noqa: BLE001
        r = f"<repr raised {type(e).__name__}>"
    return r if len(r) <= n else r[:n] + "..."


def shape_key(t):
    """Groups terms whose schema objects have the same class and declared props (different
    parameters): neighbours in this order are what an identity- or structure-keyed cache confuses."""
    k = t[0]
    if len(t) > 1 and isinstance(t[1], tuple) and k not in ("list", "dict", "any", "alias", "add", "or",
                                                          "mkreq", "native", "subst", "fwd"):
        return (k, tuple(sorted(c[0] for c in t[1])))
    if k == "list":
        spec = t[1]
        return (k, None if spec is None else spec[0], tuple(c[0] for c in t[2]))
    if k == "dict":
        return (k, None if t[1] is None else len(t[1]))
    if k == "any":
        return (k, None if t[1] is None else "alts")
    return (k,)


def short_lived(terms, shard, nshards, acc, examine,
                passes=("forward", "backward", "forward-lag", "backward-lag")):
    """Address-reuse pass.  The main passes keep a schema alive while the next one is built; here
    every schema is built, examined and dropped before the next one of the same shape (other
    parameters) is built, forwards and backwards, in one process - so that later objects reuse the
    addresses of freed ones and any state a visitor keyed by id() (or kept per instance and never
    invalidated) meets an object it was not computed for.  `examine(t, s)` records violations."""
    import gc
    from .terms import try_build
    order = sorted(range(len(terms)), key=lambda i: repr(shape_key(terms[i])))
    lo, hi = shard * len(order) // nshards, (shard + 1) * len(order) // nshards
    block = [terms[i] for i in order[lo:hi]]
    freed = {}
    for direction in passes:
        seq = block if direction.startswith("forward") else list(reversed(block))
        lag = direction.endswith("lag")      # drop each schema one step later: other reuse distance
        held = None
        for t in seq:
            s, _ = try_build(t)
            if s is None:
                continue
            acc.count("short_lived_builds")
            ident = id(s)
            if ident in freed and freed[ident] != repr(t):
                acc.count("address_reused_by_a_different_schema")
            examine(t, s)
            freed[ident] = repr(t)
            if lag:
                held, s = s, held
            del s
            gc.collect(0)
        del held
