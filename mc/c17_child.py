"""C17 child: runs in a fresh interpreter under a given PYTHONHASHSEED.

mode 'digests': for every schema sequence, Random().set_seed(k) then fake() each schema with the
REAL rng; prints one digest per sequence and the indices that differ when repeated in-process.
mode 'sites': every schema once under the scripted default RNG, printing every draw's site,
arguments and the d42 function that asked for it.
"""
import hashlib
import itertools
import json
import sys

from . import env  # noqa: F401
from d42 import fake
from d42.generation import Random

from . import e2
from .codec import src
from .terms import E, build, show
from .universe import INT, NONE, S, STR, call, ln


def schema_terms():
    rx = lambda p: S("str", ("regex", p))  # noqa: E731
    return [
        S("bool"), INT, S("int", ("min", 0), ("max", 7)), S("float"),
        S("float", ("min", 0.15), ("max", 0.35)), S("float", ("min", 1.0), ("max", 2.0), ("precision", 2)),
        STR, S("str", ln(5)), S("str", ("alphabet", "abc"), ln(3)), S("str", ("contains", "ab"), ln(2, 4)),
        S("str", ("alphabet", "mississippi"), ln(4)),          # an alphabet with repeated letters
        rx("a"), rx("."), rx(r"\d"), rx(r"\w"), rx("[ab]"), rx("[a-c]"), rx("[^ab]"), rx("[^a]"),
        rx(r"[^\d]"), rx("[^a-c]"), rx("a{2,4}"), rx("(a|b)c?"), rx("x*"), rx(r"[\w-]+"),
        rx("^(a|b|c)$"), rx("(a|b)-([0-9])"),                  # only literals/groups at top level
        ("list", ("typed", INT), (ln(3),)), ("list", ("typed", S("str", ln(1))), (ln(1, 2),)),
        ("any", (INT, STR)), S("bytes"),
        ("dict", (("a", False, INT), ("b", False, S("str", ln(2)))), False), NONE,
        ("list", ("elems", (INT, E)), ()), ("alias", "A", ("any", (S("bool"), NONE))),
        # derived schemas: the key order of what make_required / + / % build decides which draw
        # goes to which key
        ("mkreq", _D3, None), ("mkreq", _D3, ("c", "a")), ("add", _D3, ("dict", (("z", False, INT),), False)),
        ("subst", _D3, {"b": "xy"}), ("subst", _D4, {"a": 5}), ("add", _D4, _D3),
        # flags (whatever the generator makes of them, it must make the same thing every time)
        rx("(?i)ab"), rx("(?i:a)b[a-b]"),
        # a schema whose generation fails half-way (unsupported \s inside a list): what follows
        # it in a sequence must not depend on how far it got
        ("list", ("typed", rx(r"\s+")), (ln(2),)),
        # lists whose length is left to the generator's defaults, flat and nested
        ("list", ("typed", S("bool")), ()), ("list", ("typed", ("list", ("typed", INT), ())), (ln(1, 2),)),
        # patterns whose generated text (practically) never matches - a word boundary between two
        # word characters, a non-boundary at the start: whatever comes out, the same every time
        rx(r"\w\b\w"), rx(r"\Bab [a-c]{2}"),
        # pinned to a timezone-aware datetime (a datetime is a date, and a datetime): the value
        # generated may not depend on the zone the process happens to run in
        S("date", call(_AWARE)), S("datetime", call(_AWARE)),
        ("list", ("elems", (S("date", call(_AWARE)), INT)), ()),
        # a float interval wider than the float range (its own branch of the generator), an open
        # repeat whose lower bound is beyond max_repeat, a sum that brings in several new keys
        S("float", ("min", -1.7e308), ("max", 1.7e308)), rx("[a-c]{40,}"), rx("x+"),
        # a precision float whose bounds carry more digits than a small decimal context; the
        # result of substituting into a RELAXED dict with several free keys
        S("float", ("min", 0.1230004), ("max", 9.8769996), ("precision", 3)),
        ("subst", ("dict", _D3[1], True), {"b": "xy"}), ("subst", ("dict", _D4[1], True), {"a": 5}),
        ("add", _D3, ("dict", (("n1", False, INT), ("n2", False, S("bool")), ("n3", False, S("str", ln(1))),
                               ("n4", False, S("int", ("min", 0), ("max", 7))), ("n5", False, INT)), False)),
    ]


import datetime as _dt  # noqa: E402

_AWARE = _dt.datetime(2023, 6, 30, 23, 30, tzinfo=_dt.timezone.utc)
_D4 = ("dict", (("a", False, INT), ("c", False, S("bool")), ("d", False, S("int", ("min", 0), ("max", 7))),
                ("e", False, S("str", ln(2)))), False)
_D3 = ("dict", (("a", True, INT), ("b", True, S("str", ln(2))), ("c", True, S("bool")),
                ("d", True, S("int", ("min", 0), ("max", 7)))), False)


def sequences(tier):
    n = len(schema_terms())
    for i in range(n):
        yield (i,)
    for a, b in itertools.product(range(n), repeat=2):
        yield (a, b)
    if tier == "thorough":
        core = list(range(0, n, 3))
        for t in itertools.product(core, repeat=3):
            yield t


def churn():
    """Builds, generates from and drops a few dozen temporary schemas of the shapes used in the
    sequences (what a test-suite does between two seeded runs)."""
    from d42 import optional, schema
    for n in range(12):
        for tmp in (schema.dict({"tmp": schema.int(n)}), schema.dict({"k%d" % n: schema.str.len(1), optional("o"): schema.bool}),
                    schema.list(schema.int.min(n).max(n + 3)).len(1, 2), schema.any(schema.int(n), schema.none),
                    schema.str.regex("[a-c]{%d}" % (n % 3 + 1))):
            try:
                fake(tmp)
            except Exception:  # noqa: BLE001
                pass
            del tmp


def extra_instances():
    """Between seeding and generating, the program creates further instances of the generation
    classes (public constructors, non-default arguments) and does not use them to draw anything.
    The values of fake() are a function of the seed and the schemas only."""
    from d42.generation import Generator, RegexGenerator
    r2 = Random()
    rg = RegexGenerator(r2, alphabet={"digits": "0123456789abcdef", "word": "ab-", "letters": "ab~"},
                        max_repeat=3)
    Generator(Random(), rg)
    Generator(r2, RegexGenerator(Random()))


def main():
    """argv: <json list of seeds> <tier> <mode> [fwd|rev].  In mode 'digests' the seeds are run
    one after the other in this one process (so a later seed sees whatever an earlier one left
    behind), each over all sequences in forward or reverse enumeration order."""
    seeds, tier, mode = json.loads(sys.argv[1]), sys.argv[2], sys.argv[3]
    order = sys.argv[4] if len(sys.argv) > 4 else "fwd"
    terms = schema_terms()
    schemas = [build(t) for t in terms]
    if mode == "digests":
        rnd = Random()
        out = []
        seqs = list(enumerate(sequences(tier)))
        if order.startswith("rev"):
            seqs.reverse()
        for k in seeds:
            digests, unstable = {}, []
            for idx, seq in seqs:
                local = schemas
                if order.endswith("+churn"):
                    # many temporary schemas were generated from and dropped; the schemas of this
                    # sequence are built afterwards (they may sit where a dropped one sat)
                    churn()
                    local = {i: build(terms[i]) for i in set(seq)}

                def gen(i):
                    try:
                        if order.endswith("+pure-ops") and type(local[i]).__name__ == "DictSchema":
                            # public pure operations on the schema between two generations from it
                            # (results discarded): the schema generates what it generated before
                            from d42.utils import make_required
                            v = fake(local[i])
                            try:
                                make_required(local[i])
                                make_required(local[i], [k for k in local[i].keys() if k is not ...][:1])
                                local[i] + local[i]
                                repr(local[i])
                            except Exception:  # noqa: BLE001
                                pass
                            return v
                        return fake(local[i])
                    except Exception as e:  # noqa: BLE001 - a failing schema is part of the sequence
                        return ("raised", type(e).__name__)

                def once():
                    if order.endswith("+decimal"):
                        import decimal
                        decimal.getcontext().prec = 5      # the application's own decimal context
                    rnd.set_seed(k)
                    if order.endswith("+instances"):
                        extra_instances()
                    return src([gen(i) for i in seq])
                a = once()
                if once() != a:
                    unstable.append(idx)
                digests[idx] = hashlib.sha1(a.encode()).hexdigest()[:16]
            out.append({"seed": k, "digests": [digests[i] for i in range(len(seqs))],
                        "unstable": sorted(unstable)})
        json.dump({"runs": out}, sys.stdout)
    else:
        rng = e2.Scripted(0, record_callers=True)
        out = []
        with e2.installed(rng):
            e2.self_test(rng)
            for s in schemas:
                o = e2.run_once(rng, lambda: fake(s), ())
                out.append({"sites": [list(map(str, x)) for x in rng.sites],
                            "value": src(o[1]) if o[0] == "ok" else list(o)})
        json.dump({"sites": out}, sys.stdout)


if __name__ == "__main__":
    main()
