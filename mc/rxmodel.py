"""A boring, non-backtracking full-match oracle for the supported regex subset.

Walks the stdlib parse tree with sets of string positions (polynomial time), so that a wrong
generated string can never send the oracle into exponential backtracking the way
re.fullmatch does on patterns like (a|a){0,44}.  Raises Unsupported for anything else.
"""
import re._constants as C
import re._parser as P


class Unsupported(Exception):
    pass


def _in_class(items, ch):
    neg = False
    hit = False
    for op, av in items:
        if op is C.NEGATE:
            neg = True
        elif op is C.LITERAL:
            hit = hit or ord(ch) == av
        elif op is C.RANGE:
            hit = hit or av[0] <= ord(ch) <= av[1]
        elif op is C.CATEGORY:
            hit = hit or _category(av, ch)
        else:
            raise Unsupported(op)
    return hit != neg


def _category(cat, ch):
    if cat is C.CATEGORY_DIGIT:
        return ch.isdigit()
    if cat is C.CATEGORY_NOT_DIGIT:
        return not ch.isdigit()
    if cat is C.CATEGORY_WORD:
        return ch.isalnum() or ch == "_"
    if cat is C.CATEGORY_NOT_WORD:
        return not (ch.isalnum() or ch == "_")
    if cat is C.CATEGORY_SPACE:
        return ch.isspace()
    if cat is C.CATEGORY_NOT_SPACE:
        return not ch.isspace()
    raise Unsupported(cat)


def _seq(items, s, starts):
    cur = set(starts)
    for op, av in items:
        if not cur:
            return cur
        cur = _node(op, av, s, cur)
    return cur


def _node(op, av, s, starts):
    n = len(s)
    if op is C.LITERAL:
        return {i + 1 for i in starts if i < n and ord(s[i]) == av}
    if op is C.NOT_LITERAL:
        return {i + 1 for i in starts if i < n and ord(s[i]) != av}
    if op is C.ANY:
        return {i + 1 for i in starts if i < n and s[i] != "\n"}
    if op is C.IN:
        return {i + 1 for i in starts if i < n and _in_class(av, s[i])}
    if op is C.SUBPATTERN:
        return _seq(av[3], s, starts)
    if op is C.BRANCH:
        out = set()
        for alt in av[1]:
            out |= _seq(alt, s, starts)
        return out
    if op in (C.MAX_REPEAT, C.MIN_REPEAT):
        lo, hi, body = av
        out = set()
        cur = set(starts)
        k = 0
        seen_sets = []
        while True:
            if k >= lo:
                out |= cur
            if hi is not C.MAXREPEAT and k >= hi:
                break
            nxt = _seq(body, s, cur)
            k += 1
            if not nxt:
                break
            if k > lo and nxt <= out and nxt in seen_sets:
                break
            seen_sets.append(nxt)
            cur = nxt
            if k > len(s) + lo + 2:
                break
        return out
    if op is C.AT:
        if av in (C.AT_BEGINNING, C.AT_BEGINNING_STRING):
            return {i for i in starts if i == 0}
        if av is C.AT_END_STRING:
            return {i for i in starts if i == n}
        if av is C.AT_END:
            return {i for i in starts if i == n or (i == n - 1 and s[i] == "\n")}
        raise Unsupported(av)
    raise Unsupported(op)


_CACHE = {}


def fullmatch(pattern, s):
    """True/False; raises Unsupported for constructs outside the modelled subset."""
    tree = _CACHE.get(pattern)
    if tree is None:
        tree = P.parse(pattern)
        if tree.state.flags & ~(re_U()):
            raise Unsupported("flags")
        _CACHE[pattern] = tree
    return len(s) in _seq(list(tree), s, {0})


def re_U():
    import re
    return re.UNICODE.value
