"""E1 - declaration-state explorer: BFS over real schema objects, transitions = real DSL calls.

States are canonicalised by the structural fingerprint `fp` (sound for declaration because
every refinement reads only self.props and its arguments; C07 separately hunts hidden state).
Arguments that are schemas are written as Sch(term) so that chains are printable/replayable.
"""
import collections
import datetime as _dt
import uuid

from niltype import Nil

from d42 import optional, schema
from d42.declaration import DeclarationError, Schema

from . import codec
from .terms import build, fp
from .universe import INT, NONE, S, STR, call

E = Ellipsis


class Sch:
    """A schema-valued argument, given by its term."""

    def __init__(self, term):
        self.term = term

    def __repr__(self):
        return f"Sch({codec.src(self.term)})"


class Opt:
    """optional(key) as a dict key in an argument."""

    def __init__(self, key):
        self.key = key

    def __repr__(self):
        return f"Opt({codec.src(self.key)})"

    def __hash__(self):
        return hash(("Opt", self.key))

    def __eq__(self, other):
        return isinstance(other, Opt) and other.key == self.key


_OBJ = codec.register("e1_object", object())


def realise(a):
    if isinstance(a, Sch):
        return build(a.term)
    if isinstance(a, Opt):
        return optional(a.key)
    if isinstance(a, list):
        return [realise(x) for x in a]
    if isinstance(a, tuple):
        return tuple(realise(x) for x in a)
    if isinstance(a, dict):
        return {realise(k): realise(v) for k, v in a.items()}
    return a


def arg_src(a):
    if isinstance(a, (Sch, Opt)):
        return repr(a)
    if isinstance(a, list):
        return "[" + ", ".join(arg_src(x) for x in a) + "]"
    if isinstance(a, tuple):
        return "(" + ", ".join(arg_src(x) for x in a) + ("," if len(a) == 1 else "") + ")"
    if isinstance(a, dict):
        return "{" + ", ".join(f"{arg_src(k)}: {arg_src(v)}" for k, v in a.items()) + "}"
    return codec.src(a)


def arg_unsrc(text):
    ns = codec.namespace()
    ns["Sch"] = Sch
    ns["Opt"] = Opt
    return eval(text, ns)  # noqa: S307


V4 = uuid.UUID("7e1c1b6e-2c2f-4c8b-9b8e-1d2a3b4c5d6e")
V1 = uuid.UUID("51c2f442-bf61-11f1-b9da-02fc00000001")
# version nibble 4 but not an RFC 4122 variant: UUID.version is None for it
V4_NCS = uuid.UUID("7e1c1b6e-2c2f-4c8b-1b8e-1d2a3b4c5d6e")
DT = _dt.datetime(2020, 1, 2, 3, 4, 5)
D = _dt.date(2020, 1, 2)
WRONG = [None, "x", 1.5, True, [], {}, E, Nil, _OBJ, -1, b"b", (1, 2), ()]

import re as _re  # noqa: E402

RE_STR = codec.register("e1_compiled_str_pattern", _re.compile("a"))
RE_BYTES = codec.register("e1_compiled_bytes_pattern", _re.compile(b"a"))
RE_FLAGS = codec.register("e1_compiled_pattern_with_flags", _re.compile("abc", _re.I | _re.S))
ANY0 = Sch(("any", None))
I1 = Sch(S("int", call(1)))
SA = Sch(S("str", call("a")))
SI = Sch(INT)
SS = Sch(STR)


def alphabet(kind, tier):
    # the operator route of a declaration: `receiver | operand` with an operand that is not a
    # schema (rejected like schema.any(receiver, operand)); valid operands would change the kind
    return _alphabet(kind, tier) + [("|", (v,)) for v in (5, None, "x", E, [SI])]


def _alphabet(kind, tier):
    T = tier == "thorough"
    c = "__call__"
    if kind == "int":
        # 10**400 is beyond the float range (anything that converts an int bound or value to a
        # float, e.g. to format it, overflows)
        vals = [0, 7, True, 2 ** 63, -1, 10 ** 400] + WRONG
        bounds = [0, 7, -1, 8, 2 ** 63, True, 1.0, "x", None, E, Nil, 10 ** 400 + 1, -10 ** 400]
        return [(c, (v,)) for v in vals] + [(m, (v,)) for m in ("min", "max") for v in bounds]
    if kind == "float":
        # 1.46 / 1.54 round to 1.5 at precision 1: a bound of 1.5 lies between value and grid point
        vals = [1.5, 0.0, float("inf"), 1, "x", None, 1e308, 1.46, 1.54, float("nan")] \
            + ([float("-inf"), -0.0, 2.675] if T else [])
        # 1.5000000001 / 1.4999999999 are within math.isclose of the value 1.5 and on its wrong side
        bounds = [0.15, 1.5, 2.5, 1, None, "x", E, 1.5000000001, 1.4999999999] \
            + ([float("inf"), -1.0] if T else [])
        precs = [1, 2, 15, 16, 0, -1, True, 1.5, "x", None]
        return ([(c, (v,)) for v in vals] + [(m, (v,)) for m in ("min", "max") for v in bounds]
                + [("precision", (v,)) for v in precs])
    if kind == "str":
        lens = [(0,), (1,), (2,), (33,), (-1,), (True,), (1, E), (2, E), (E, 1), (E, 2), (1, 2), (2, 1),
                (E, E), (Nil,), ("x",), (1.5,), (None,), (1, "x"), (E, None), (0, E), (E, 0), (E,), (1, Nil)]
        return ([(c, (v,)) for v in ("", "a", "ab", "abc", 1, None, b"a", E, "{id}", "a{0}", "ABC")]
                + [("len", a) for a in lens]
                + [("alphabet", (v,)) for v in ("", "a", "ab", "abc", 1, None, E, "{}id0a")]
                + [("contains", (v,)) for v in ("", "a", "ab", "c", 1, None, E, "{")]
                + [("regex", (v,)) for v in ("a", "[ab]+", "^a.$", "a{2}", "*", "(",
                                             "a{99999999999999999999}", 1, None, E, RE_STR, RE_BYTES, RE_FLAGS)])
    if kind == "bool":
        return [(c, (v,)) for v in (True, False, 1, 0, "x", None, E, Nil)]
    if kind == "bytes":
        return [(c, (v,)) for v in (b"", b"ab", "a", bytearray(b"a"), None, E)]
    if kind == "uuid4":
        return [(c, (v,)) for v in (V4, V1, V4_NCS, str(V4), None, E)]
    if kind == "datetime":
        return [(c, (v,)) for v in (DT, D, "x", None, E)]
    if kind == "date":
        return [(c, (v,)) for v in (DT, D, "x", None, E)]
    if kind == "none":
        return []
    if kind == "list":
        lens = [(0,), (1,), (2,), (3,), (17,), (-1,), (True,), (1, E), (2, E), (E, 1), (E, 2), (1, 2),
                (2, 1), (1, 3), (E, E), (Nil,), ("x",), (None,), (0, E), (E, 0)]
        calls = [SI, [], [I1], [I1, SA], [I1, E], [E, I1], [E, I1, E], [E], [E, E], [SI, E, SI],
                 [1], [None], "x", None, E, (SI,), {}, [I1, SA, E], [E, I1, SA, E],
                 [Sch(S("int", call(1))), Sch(INT)],
                 # an accept-anything element first / last in a fully fixed list
                 [ANY0, I1], [I1, ANY0], [ANY0]]
        return [(c, (v,)) for v in calls] + [("len", a) for a in lens]
    if kind == "dict":
        calls = [{}, {"a": SI}, {Opt("a"): SI, E: E}, {E: E}, {"a": E}, {E: SI}, {"a": 1},
                 {Opt("a"): E}, [], None, E, "x", {"a": SI, "b": SA}, {1: SI, (1, 2): SA, None: SI},
                 # keys that are format-template text (every DeclarationError quotes repr(receiver))
                 {"{id}": SI, Opt("{}"): SA, "a}b{0}": SI},
                 # `...: ...` first / in the middle of the key table
                 {E: E, "a": SI}, {"a": SI, E: E, Opt("b"): SA}]
        return [(c, (v,)) for v in calls]
    if kind == "any":
        calls = [(SI,), (SI, SS), (Sch(("any", (INT,))), Sch(NONE)), (1,), (SI, None), (E,), (None,),
                 (Sch(("any", None)),), (Sch(("any", (STR,))),), (Sch(("any", (INT, STR))),)]
        return [(c, a) for a in calls]
    raise ValueError(kind)


KINDS = ("int", "float", "str", "bool", "bytes", "uuid4", "datetime", "date", "none", "list",
         "dict", "any")

# which declared-property family a method (re)declares - for the "already declared" clause
FAMILY = {"__call__": "value", "min": "min", "max": "max", "precision": "precision", "len": "len",
          "alphabet": "alphabet", "contains": "substr", "regex": "pattern"}


def step(s, method, args):
    """('schema', obj) | ('decl', msg) | ('exc', ExcName, msg) | ('other', repr)."""
    try:
        if method == "|":
            r = s | realise(args)[0]
        else:
            r = getattr(s, method)(*realise(args))
    except DeclarationError as e:
        return ("decl", str(e)[:100])
    except Exception as e:  # noqa: BLE001
        return ("exc", type(e).__name__, str(e)[:100])
    if isinstance(r, Schema):
        return ("schema", r)
    return ("other", repr(r)[:80])


def bfs(kind, tier, max_len, on_transition=None, on_state=None):
    """Explores all chains up to max_len.  Returns (states: fp -> (schema, chain), transitions)."""
    alpha = alphabet(kind, tier)
    init = getattr(schema, kind)
    seen = collections.OrderedDict()
    seen[fp(init)] = (init, ())
    frontier = [(init, ())]
    ntrans = 0
    bfs.last_fixpoint = False
    for _ in range(max_len):
        if not frontier:
            bfs.last_fixpoint = True      # no new state at the previous level: graph fully explored
            break
        nxt = []
        for s, chain in frontier:
            if on_state is not None:
                on_state(s, chain)           # before the first call is made on this receiver
            for method, args in alpha:
                ntrans += 1
                out = step(s, method, args)
                if on_transition is not None:
                    on_transition(s, chain, method, args, out)
                if out[0] == "schema":
                    k = fp(out[1])
                    if k not in seen:
                        ch = chain + ((method, args),)
                        seen[k] = (out[1], ch)
                        nxt.append((out[1], ch))
        frontier = nxt
    if not frontier:
        bfs.last_fixpoint = True
    return seen, ntrans


def chain_src(chain):
    return [[m, arg_src(a)] for m, a in chain]


def chain_unsrc(data):
    return tuple((m, arg_unsrc(a)) for m, a in data)


def run_chain(kind, chain):
    s = getattr(schema, kind)
    for m, a in chain:
        out = step(s, m, a)
        if out[0] != "schema":
            return None, out
        s = out[1]
    return s, None
