"""Finite value universes: perturbations, boundaries, unrelated values and the hostile zoo."""
import collections
import datetime as _dt
import decimal
import fractions
import uuid

from niltype import Nil

from . import model as M
from . import codec as _codec
from .codec import register

E = Ellipsis

UNRELATED = [None, True, 0, 1, 1.0, "", "a", b"", [], [None], {}, {"a": 1}]

# `...` and Nil are ordinary (non-conforming) values for the validator; only substitution gives
# them a meaning
_OTHER_KINDS = [None, True, 0, 1.5, "q", b"q", [], {}, E, Nil]


def _key(v):
    return (type(v).__name__, repr(v), _has_sub(v))


def _has_sub(v):
    """Where plain-subclass instances sit inside v (they print like the built-in they extend)."""
    if type(v) in _codec.SUBS:
        inner = tuple(_has_sub(x) for x in (v if isinstance(v, list) else v.values())) \
            if isinstance(v, (list, dict)) else ()
        return (type(v).__name__,) + inner
    if type(v) is list:
        return tuple(_has_sub(x) for x in v) if any(_has_sub(x) for x in v) else ()
    if type(v) is dict:
        return tuple(_has_sub(x) for x in v.values()) if any(_has_sub(x) for x in v.values()) else ()
    return ()


def dedup(values):
    seen, out = set(), []
    for v in values:
        try:
            k = _key(v)
        except Exception:  # noqa: BLE001
            k = ("id", id(v))
        if k not in seen:
            seen.add(k)
            out.append(v)
    return out


def cp(v):
    if type(v) is _codec.ListSub:
        return _codec.ListSub(cp(x) for x in v)
    if type(v) is _codec.DictSub:
        return _codec.DictSub({k: cp(x) for k, x in v.items()})
    if isinstance(v, list):
        return [cp(x) for x in v]
    if isinstance(v, collections.defaultdict):
        return collections.defaultdict(v.default_factory, {k: cp(x) for k, x in v.items()})
    if isinstance(v, collections.Counter):
        return collections.Counter({k: cp(x) for k, x in v.items()})
    if isinstance(v, dict):
        return {k: cp(x) for k, x in v.items()}
    return v


def sub_twins(w):
    """The same value with plain subclass instances in place of built-in ones (an instance of a
    subclass of str IS a str, ...): everything replaced / only the leaves / only the containers.
    bool, None and the other kinds stay as they are."""
    S = _codec

    def tw(v, leaves, containers):
        if isinstance(v, bool) or v is None:
            return v
        if type(v) is list:
            x = [tw(y, leaves, containers) for y in v]
            return S.ListSub(x) if containers else x
        if type(v) is dict:
            x = {k: tw(y, leaves, containers) for k, y in v.items()}
            return S.DictSub(x) if containers else x
        if leaves:
            if type(v) is str:
                return S.StrSub(v)
            if type(v) is int and v.bit_length() < 4000:
                return S.IntSub(v)
            if type(v) is float:
                return S.FloatSub(v)
        return v

    out = [tw(w, True, True)]
    if isinstance(w, (list, dict)):
        out += [tw(w, True, False), tw(w, False, True)]
    return out


def all_wrong_kind(v):
    """A container value with EVERY leaf replaced by a value of another kind (as many failing
    siblings as there are leaves, under keys of whatever kinds the container has)."""
    if isinstance(v, list):
        return [all_wrong_kind(x) for x in v]
    if isinstance(v, dict):
        return {k: all_wrong_kind(x) for k, x in v.items()}
    if isinstance(v, str):
        return 0
    return "q"


def missing_variants(w, depth=0):
    """Dict values as dict subclasses that answer lookups of absent keys (`__missing__`):
    defaultdict inserts a default on `d[k]`, Counter returns 0 without inserting.  The whole
    dict and the dict minus each key, at the top level and one level down."""
    out = []
    if isinstance(w, dict):
        subsets = [dict(w)] + [{k: x for k, x in w.items() if k != drop} for drop in list(w)[:3]]
        for sub in subsets:
            out.append(collections.defaultdict(int, {k: cp(x) for k, x in sub.items()}))
            out.append(collections.defaultdict(list, {k: cp(x) for k, x in sub.items()}))
            out.append(collections.Counter({k: cp(x) for k, x in sub.items()}))
        if depth < 1:
            for k, x in w.items():
                for y in missing_variants(x, depth + 1)[:4]:
                    d = cp(w)
                    d[k] = y
                    out.append(d)
    elif isinstance(w, list) and depth < 1:
        for j, x in enumerate(w[:3]):
            for y in missing_variants(x, depth + 1)[:4]:
                d = cp(w)
                d[j] = y
                out.append(d)
    return out


def perturb(v, nested=True):
    """Every single-step change of v, at every depth."""
    out = []
    # kind replacement
    for o in _OTHER_KINDS:
        if type(o) is not type(v):
            out.append(cp(o))
    # look-alikes: values of another kind that compare (and hash) equal to v
    if isinstance(v, bool):
        out += [int(v), float(v)]
    elif isinstance(v, int) and abs(v) < 2 ** 53:
        out += [float(v)] + ([bool(v)] if v in (0, 1) else [])
    elif isinstance(v, float) and v == v and abs(v) < 2 ** 53 and v == int(v):
        out += [int(v)] + ([bool(v)] if v in (0.0, 1.0) else [])
    if isinstance(v, bool):
        out.append(not v)
    elif isinstance(v, int):
        out += [v - 1, v + 1]
    elif isinstance(v, float):
        if v in (float("inf"), float("-inf")):
            out += [-v, 1.0, 1.7976931348623157e308 if v > 0 else -1.7976931348623157e308, 0.0]
        if v == v and abs(v) < 1e-300:
            # around zero the relative tolerance is no tolerance at all: the nearest floats differ
            out += [v + 5e-324, v - 5e-324, 1e-310, -1e-310] + ([-v] if v else [5e-324])
        if v == v and v not in (float("inf"), float("-inf")):
            out += [v - 1.0, v + 1.0, v - 0.2, v + 0.2]
            # far outside the relative tolerance, yet tiny in absolute terms
            out += [v * (1 + 1e-6) if v else 1e-12, v + 1e-12 if abs(v) < 1e-3 else v * (1 - 1e-6)]
    elif isinstance(v, str):
        out += [v + "z", "Z" + v[1:] if v else "Z"]
        if v:
            out += [v[1:], v[:-1]]
        if len(v) >= 2:
            out.append(v[1] + v[0] + v[2:])
    elif isinstance(v, bytes):
        out += [v + b"z"] + ([v[1:]] if v else [])
    elif isinstance(v, uuid.UUID):
        out += [M.FIX_UUID2 if v != M.FIX_UUID2 else M.FIX_UUID,
                uuid.UUID("51c2f442-bf61-11f1-b9da-02fc00000001"),
                # no version at all (nil), and version nibble 4 under a non-RFC variant
                uuid.UUID(int=0), uuid.UUID("7e1c1b6e-2c2f-4c8b-1b8e-1d2a3b4c5d6e")]
    elif isinstance(v, _dt.datetime):
        out += [v + _dt.timedelta(seconds=1), v.date()]
    elif isinstance(v, _dt.date):
        out += [v + _dt.timedelta(days=1), _dt.datetime(v.year, v.month, v.day)]
    elif isinstance(v, list):
        out.append(cp(v) + [None])
        out.append([None] + cp(v))
        if v:
            out += [cp(v[1:]), cp(v[:-1]), [cp(v[0])] + cp(v)]
        if len(v) >= 2:
            out.append([cp(v[1]), cp(v[0])] + cp(v[2:]))
        if nested:
            for i, x in enumerate(v):
                for y in perturb(x, nested):
                    w = cp(v)
                    w[i] = y
                    out.append(w)
    elif isinstance(v, dict):
        w = cp(v)
        w["zz"] = None
        out.append(w)
        for k in v:
            w = cp(v)
            del w[k]
            out.append(w)
        for k in list(v)[:1]:
            if isinstance(k, str):
                w = {(k + "_" if kk == k else kk): cp(x) for kk, x in v.items()}
                out.append(w)
        if nested:
            for k, x in v.items():
                for y in perturb(x, nested):
                    w = cp(v)
                    w[k] = y
                    out.append(w)
    return dedup(out)


def boundary(t):
    """bound-1, bound, bound+1 for the numeric / length bounds of a (resolved) scalar or list."""
    try:
        t = M.resolve(t)
    except M.ModelGap:
        return []
    out = []
    k = t[0]
    if k in ("int", "float"):
        p = M.props_of(t[1])
        for b in ("min", "max", "value"):
            if b in p and isinstance(p[b], (int, float)) and p[b] == p[b] \
                    and abs(p[b]) != float("inf"):
                x = p[b]
                out += ([x - 1, x, x + 1] if k == "int" else [x - 1.0, x, x + 1.0, x - 0.2, x + 0.2])
                if k == "float" and x != 0:
                    # a hair's breadth either side: inside math.isclose's band around a pinned value,
                    # yet strictly beyond a min / max of the same magnitude (bounds are exact)
                    out += [x * (1 + 5e-10), x * (1 - 5e-10), x + 1e-12, x - 1e-12]
    if k == "str":
        p = M.props_of(t[1])
        alpha = p.get("alphabet")
        fill = alpha[0] if alpha else "x"
        sub = p.get("substr", "")
        for b in ("len", "min_len", "max_len"):
            if b in p and isinstance(p[b], int) and 0 <= p[b] <= 100:
                for n in (p[b] - 1, p[b], p[b] + 1):
                    if n >= len(sub):
                        out.append(sub + fill * (n - len(sub)))
                    elif n >= 0:
                        out.append(fill * n)
    if k == "list":
        p = M.props_of(t[2])
        for b in ("len", "min_len", "max_len"):
            if b in p and isinstance(p[b], int) and 0 <= p[b] <= 40:
                for n in (p[b] - 1, p[b], p[b] + 1):
                    if n >= 0:
                        out.append([None] * n)
    return dedup(out)


def value_universe(t, limit=None):
    """V(T) = witnesses, their perturbations, boundaries, unrelated.  Returns (values, capped)."""
    ws = M.witnesses(t)
    vals = [cp(w) for w in ws]
    nhead = len(vals)
    for w in ws[:3]:
        vals += missing_variants(w)
    for w in ws[:3]:
        vals += sub_twins(w)
    for w in ws[:2]:
        if isinstance(w, (list, dict)) and len(w) >= 2:
            vals.append(all_wrong_kind(w))
    nhead = len(vals)
    for w in ws:
        vals += perturb(w)
    vals += boundary(t)
    vals += [cp(u) for u in UNRELATED]
    vals = dedup(vals)
    capped = False
    if limit is not None and len(vals) > limit:
        # keep witnesses and unrelated, thin the perturbations evenly (deterministic)
        nhead = min(nhead, limit // 2)
        head = vals[:nhead]
        rest = vals[nhead:]
        step = len(rest) / (limit - len(head))
        picked = [rest[int(i * step)] for i in range(limit - len(head))]
        vals = head + picked
        capped = True
    return vals, capped


# ---- hostile zoo (C08) -----------------------------------------------------------------------------

from .codec import DictSub, FloatSub, IntSub, ListSub, StrSub  # noqa: E402,F401


class Twin:
    """Distinct, unequal objects that all print the same."""

    def __repr__(self):
        return "<twin>"


class Opaque:
    def __repr__(self):
        return "<Opaque>"


def _fn():
    return None


def make_zoo():
    z = [
        float("inf"), float("-inf"), float("nan"), 10 ** 400, -10 ** 400, 1e308, -1e308, 5e-324,
        # finite floats of middle magnitude (more digits than a 28-digit decimal context once quantized)
        1e27, -3.3e22, 123456789012345.67, 2.0 ** 70 + 0.0,
        decimal.Decimal("1.5"), fractions.Fraction(1, 3), complex(1, 2),
        (1, 2), (), {1, 2}, frozenset([1]), bytearray(b"ab"), range(3), register("memoryview", memoryview(b"ab")),
        register("strsub", StrSub("ab")), register("intsub", IntSub(7)),
        register("floatsub", FloatSub(1.5)), register("listsub", ListSub([1])),
        register("dictsub", DictSub({"a": 1})),
        collections.OrderedDict([("a", 1)]),
        register("defaultdict", collections.defaultdict(int, {"a": 1})),
        uuid.UUID("51c2f442-bf61-11f1-b9da-02fc00000001"),            # v1
        uuid.uuid5(uuid.NAMESPACE_DNS, "x"),                          # v5
        uuid.UUID("00000000-0000-0000-0000-000000000000"),            # no version (nil)
        uuid.UUID("7e1c1b6e-2c2f-0c8b-1b8e-1d2a3b4c5d6e"),            # non-RFC variant
        _dt.datetime(2020, 1, 2, tzinfo=_dt.timezone.utc), _dt.datetime(2020, 1, 2),
        _dt.date(2020, 1, 2), register("time", _dt.time(1, 2)), register("timedelta", _dt.timedelta(1)),
        register("object", Opaque()), register("class", Opaque), register("function", _fn),
        E, Nil, register("NotImplemented", NotImplemented),
        "\x00", "\ud800", "é" * 3, "a" * 1000, b"\xff",
        {None: 1}, {(1, 2): 1}, {frozenset([1]): 1}, {1.5: 1}, {b"k": 1}, {10 ** 30: 1},
        {E: 1}, {True: 1},
        # distinct keys that render alike: two nan keys, two objects with one repr
        {float("nan"): 1, float("nan"): 2}, register("twins", {Twin(): 1, Twin(): 2}),
        # an int beyond CPython's int -> decimal-string limit (4300 digits): its repr() raises
        register("int_5001_digits", 10 ** 5000),
        # several mutually unorderable keys / members at once
        {None: 1, (1, 2): 2, "k": 3, 1.5: 4, b"k": 5}, [None, (1, 2), "k", 1.5, b"k", float("nan")],
    ]
    return z


ZOO = make_zoo()


def inject(v, z, max_out=None):
    """Every value obtained from v by putting z at one position: as replacement of any node,
    as an extra element of any list, as an extra value or an extra key of any dict."""
    out = []

    def hashable(x):
        try:
            hash(x)
            return True
        except TypeError:
            return False

    def rec(node, rebuild):
        out.append(rebuild(z))
        if isinstance(node, list):
            for pos in (0, len(node)):
                w = cp(node)
                w.insert(pos, z)
                out.append(rebuild(w))
            for i, x in enumerate(node):
                def rb(new, i=i, node=node):
                    w = cp(node)
                    w[i] = new
                    return rebuild(w)
                rec(x, rb)
        elif isinstance(node, dict):
            w = cp(node)
            w["zz"] = z
            out.append(rebuild(w))
            if hashable(z):
                w = cp(node)
                w[z] = 1
                out.append(rebuild(w))
                w = cp(w)                   # two extra keys of unrelated kinds at once
                w[None if z is not None else 0] = 1
                w[(0,)] = 1
                out.append(rebuild(w))
            for k, x in node.items():
                def rb(new, k=k, node=node):
                    w = cp(node)
                    w[k] = new
                    return rebuild(w)
                rec(x, rb)

    rec(v, lambda new: new)
    return out if max_out is None else out[:max_out]
