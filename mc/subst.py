"""Shared enumeration for C04 / C05 / C12: substitution values S(T) and third values."""
import collections
import types
import uuid

from niltype import Nil

from d42 import fake, optional, substitute, validate
from d42.substitution.errors import SubstitutionError

from . import e2
from . import model as M
from .codec import TAG_RED, register
from .values import UNRELATED, cp, dedup, inject, perturb, value_universe

E = Ellipsis
NAN = float("nan")
HUGE = register("int_5001_digits_subst", 10 ** 5000)


class _Opaque:
    def __repr__(self):
        return "<opaque>"


OPAQUE = register("subst_opaque", _Opaque())
UNCONVERTIBLE = [OPAQUE, (1, 2), register("subst_set", {1}),
                 uuid.UUID("51c2f442-bf61-11f1-b9da-02fc00000001"), 1 + 2j, bytearray(b"x")]
import datetime as _dt  # noqa: E402

DT_END_AWARE = _dt.datetime(9999, 12, 31, 23, 0, tzinfo=_dt.timezone(_dt.timedelta(hours=-5)))
DT_START_AWARE = _dt.datetime(1, 1, 1, 0, 30, tzinfo=_dt.timezone(_dt.timedelta(hours=3)))
# mappings that are not dicts (read-only view, layered lookup): not plain data
NON_DICT_MAPPINGS = [types.MappingProxyType({"a": 1}), collections.ChainMap({"a": 1}, {"b": 2})]

VLIMIT = {"quick": 100, "thorough": 250}


def partials(w, depth=0):
    """Partial versions of a dict value: every subset of keys, at every depth."""
    out = []
    if isinstance(w, dict):
        keys = list(w)
        if len(keys) <= 4:
            for mask in range(1 << len(keys)):
                out.append({k: cp(w[k]) for j, k in enumerate(keys) if mask >> j & 1})
        for k in keys:
            if depth < 3:
                for p in partials(w[k], depth + 1):
                    d = cp(w)
                    d[k] = p
                    out.append(d)
    elif isinstance(w, list):
        for j, x in enumerate(w):
            if depth < 3:
                ps = partials(x, depth + 1)
                for p in ps:
                    d = cp(w)
                    d[j] = p
                    out.append(d)
                # a partial look-alike next to the full element: ambiguous windows for [..., a, ...]
                for p in ps[:3]:
                    out.append([cp(p)] + cp(w))
                    out.append(cp(w) + [cp(p)])
                    # ... and next to an element that is itself only partially given (the whole
                    # value then conforms nowhere, so no window is "the" right one)
                    d = cp(w)
                    d[j] = cp(p)
                    out.append([cp(p)] + d)
                    out.append(d + [cp(p)])
                    if isinstance(x, dict):
                        # ... and next to a full element carrying an extra key: under a relaxed
                        # member schema only the partial one can be substituted
                        x2 = cp(x)
                        x2["zz"] = 1
                        out.append([cp(p), x2])
                        out.append([x2, cp(p)])
    return out


def with_placeholders(w):
    """Values containing ... / Nil (C12 only)."""
    out = [E, Nil]
    if isinstance(w, list):
        for j in range(len(w)):
            d = cp(w)
            d[j] = E
            out.append(d)
        out += [[E], [E, E], [E] + cp(w), cp(w) + [E], [E] + cp(w) + [E], [Nil]]
        # doubled markers at an edge, a marker at both edges and inside
        out += [[E, E] + cp(w), cp(w) + [E, E], [E, E] + cp(w) + [E, E], [E, E, E]]
        if len(w) >= 2:
            out.append([E] + cp(w[:1]) + [E] + cp(w[1:]) + [E])
    if isinstance(w, dict):
        for k in w:
            d = cp(w)
            d[k] = E
            out.append(d)
            d = cp(w)
            d[k] = Nil
            out.append(d)
        d = cp(w)
        d[E] = E
        out.append(d)
    # a placeholder (alone or wrapped in a small container, incl. `...` as a key with a plain
    # value) at every position: replacement, extra element, extra value, extra key
    for z in (E, Nil, {E: 1}, {E: E}, {E: Nil}, [E], {"a": E}, {"a": Nil}):
        out += inject(w, z)
    return out


def _float_leaf_variants(v, factors):
    """v with one float leaf scaled by each factor (the math.isclose tolerance band)."""
    out = []
    if isinstance(v, float) and v == v and abs(v) not in (0.0, float("inf")):
        return [v * f for f in factors]
    if isinstance(v, list):
        for j, x in enumerate(v):
            for y in _float_leaf_variants(x, factors):
                d = cp(v)
                d[j] = y
                out.append(d)
    elif isinstance(v, dict):
        for k, x in v.items():
            for y in _float_leaf_variants(x, factors):
                d = cp(v)
                d[k] = y
                out.append(d)
    return out


def is_plain(v):
    if v is E or v is Nil:
        return False
    if isinstance(v, list):
        return all(is_plain(x) for x in v)
    if isinstance(v, dict):
        return all(k is not E and is_plain(x) for k, x in v.items())
    return True


def subst_values(t, tier, placeholders=True):
    base, _ = value_universe(t, VLIMIT[tier])
    ws = M.witnesses(t)
    out = list(base)
    for w in ws[:4]:
        out += partials(w)
        for z in UNCONVERTIBLE[:(4 if tier == "quick" else 6)]:
            out += inject(w, z)
        if placeholders:
            out += with_placeholders(w)
    for w in ws[:4]:
        out += _float_leaf_variants(w, (1 + 5e-10, 1 - 5e-10))     # inside the tolerance band
    out += [OPAQUE, (1, 2)]
    # aware datetimes within their UTC offset of the ends of the representable range
    for z in (DT_END_AWARE, DT_START_AWARE):
        out.append(z)
        for w in ws[:1]:
            out += inject(w, z, max_out=4)
    for w in ws[:1]:
        if isinstance(w, list):
            # sixty members, every one of the wrong kind (more errors than any message cap)
            out.append(["q" if not isinstance(w[0] if w else 0, str) else 0] * 60)
            out.append([{"zz": None}] * 60)
    for z in NON_DICT_MAPPINGS:
        out.append(z)
        for w in ws[:1]:
            out += inject(w, z, max_out=6)
    for w in ws[:2]:
        if type(w) is dict and w:
            # a key given wrapped in optional(...) - alone, and next to the same key given plainly
            ks = list(w)
            d = {(optional(k) if i == len(ks) - 1 else k): cp(x) for i, (k, x) in enumerate(w.items())}
            out.append(d)
            d2 = cp(w)
            d2[optional(ks[0])] = cp(w[ks[0]])
            out.append(d2)
            out += inject(w, {"k": 1, optional("k"): 2}, max_out=4)
        if isinstance(w, list) and w and placeholders is not None:
            # 100 and 101 members (beyond any default bound), every member a copy of a conforming one
            out.append([cp(w[0]) for _ in range(100)])
            out.append([cp(w[j % len(w)]) for j in range(101)])
    # a str-mixin enum member: a str (== "red") whose str() is something else
    out.append(TAG_RED)
    for w in ws[:1]:
        out += inject(w, TAG_RED, max_out=8)
    # not-a-number is a float like any other as far as substitution is concerned: alone, and in
    # place of every node of the first witness
    out.append(NAN)
    for w in ws[:1]:
        out += inject(w, NAN, max_out=12)
    # floats at the edge of the range: finite but overflowing once scaled by 10**precision, and inf
    for z in (1e308, float("inf")):
        out.append(z)
        for w in ws[:1]:
            out += inject(w, z, max_out=6)
    if placeholders:
        # C12 ("for any value"): an int beyond CPython's int -> str limit, alone and inside
        out.append(HUGE)
        for w in ws[:1]:
            out += inject(w, HUGE, max_out=8)
    return dedup(out)


def try_subst(s, v):
    """('ok', R) | ('suberr', msg) | ('exc', ExcName, msg)."""
    try:
        return ("ok", substitute(s, v))
    except SubstitutionError as e:
        return ("suberr", str(e)[:120])
    except Exception as e:  # noqa: BLE001
        return ("exc", type(e).__name__, str(e)[:120])


def clean(s, v):
    try:
        return not validate(s, v).has_errors()
    except Exception as e:  # noqa: BLE001
        return "raises:" + type(e).__name__


def third_values(t, v, tier):
    base, _ = value_universe(t, VLIMIT[tier])
    long_list = isinstance(v, list) and len(v) > 20
    out = list(base) + [cp(v)] + perturb(v, nested=not long_list) + [cp(u) for u in UNRELATED]
    if long_list:
        out += [cp(v) + ["q"], cp(v) + [cp(v[0]), "q"], cp(v)[:-1] + ["q"]]
    # just inside and just outside math.isclose's relative tolerance of 1e-9 around each float leaf
    out += _float_leaf_variants(v, (1 + 1.4e-9, 1 - 1.4e-9, 1 + 9e-10, 1 - 9e-10, 1 + 2.5e-9))
    return dedup(out)


def generated(rng, r, D, cap=300):
    """Outcomes of fake(r) under every script with <= D deviations (list of e2 outcomes)."""
    items, info = e2.explore_all(rng, lambda: fake(r), D, full_cap=cap, max_execs=cap * 4)
    return [o for _, _, o in items], info


def carries(v, w, tol=0.1 + 1e-9):
    if isinstance(v, list):
        return isinstance(w, list) and len(v) == len(w) and all(carries(a, b, tol) for a, b in zip(v, w))
    if isinstance(v, dict):
        if not isinstance(w, dict):
            return False
        for k in v:
            if k not in w or not carries(v[k], w[k], tol):
                return False
        return True
    if isinstance(v, float) and v != v:
        return isinstance(w, float) and w != w        # nan is carried by nan
    if isinstance(v, float) and isinstance(w, float):
        # within the documented tolerance: one coarsest grid step absolutely, or math.isclose's
        # own relative band (which is what a pinned float accepts around a huge value)
        return v == w or abs(v - w) <= tol or abs(v - w) <= 2e-9 * max(abs(v), abs(w))
    try:
        return bool(v == w)
    except Exception:  # noqa: BLE001
        return False
