"""Terms: recipes for building schemas through the public DSL, and the real builder.

A term is a nested tuple (hashable, printable with codec.src):

  ("none",)
  (kind, calls)            kind in bool int float str bytes uuid4 datetime date;
                           calls = tuple of ("call", v) ("min", v) ("max", v) ("precision", n)
                                   ("len", a[, b]) ("alphabet", s) ("contains", s) ("regex", p)
                           applied in that order
  ("list", spec, calls)    spec = None | ("typed", T) | ("elems", (T | ..., ...)); calls = len forms
  ("dict", entries, relaxed)   entries = None | ((key, is_optional, T), ...)
  ("any", alts)            alts = None | (T, ...)
  ("alias", name, T)
  ("add", D1, D2)  ("or", T1, T2)  ("mkreq", D, keys|None)  ("native", v)  ("subst", T, v)
  ("fwd", T)               forwarding custom type around T (C16)

`build` replays the recipe on the real facade.  `fp` is a structural fingerprint of a real
schema computed only through the public `props` interface - it never uses d42's ==, repr or
visitors.
"""
from niltype import Nil

from d42 import optional, schema, substitute
from d42.declaration import Schema
from d42.utils import from_native, make_required

E = Ellipsis
SCALARS = ("bool", "int", "float", "str", "bytes", "uuid4", "datetime", "date")


def _own(x):
    """Every build evaluates its own literals: a nan written in a declaration is a NEW float
    object each time the declaration runs (two builds never share one by identity), and so are
    the lists / dicts of a from_native or substitution value."""
    if isinstance(x, float) and x != x:
        return float("nan")
    return x


def apply_call(s, c):
    name = c[0]
    c = (name,) + tuple(_own(a) for a in c[1:])
    if name == "call":
        return s(c[1])
    if name == "len":
        return s.len(*c[1:])
    if name == "contains":
        return s.contains(c[1])
    if name == "regex":
        return s.regex(c[1])
    return getattr(s, name)(*c[1:])


WARM = False


class _Scribble:
    """What a careless caller leaves in a container after handing it to d42."""

    def __repr__(self):
        return "<scribble>"


SCRIBBLE = _Scribble()


def scribble(c):
    """The caller goes on using (here: ruins) a list/dict it passed to a declaration, to
    from_native or to substitute.  Schemas built from it must not notice (C07); every check
    builds its schemas this way, so one that kept a reference fails the check's own oracle."""
    if isinstance(c, list):
        for x in c:
            scribble(x)
        c.clear()
        c.append(SCRIBBLE)
    elif isinstance(c, dict):
        for x in list(c.values()):
            scribble(x)
        c.clear()
        c[SCRIBBLE] = SCRIBBLE


def _own_copy(v):
    if isinstance(v, list):
        return [_own_copy(x) for x in v]
    if type(v) is dict:
        return {k: _own_copy(x) for k, x in v.items()}
    return _own(v)


def set_warm(flag):
    """Warm mode: every intermediate schema object a term is built from is first *used* through
    the public, supposedly pure operations (repr, ==, validate, fake) before it is refined,
    combined or substituted into.  By C07 this must change nothing; state cached on instances,
    visitors or modules by those operations is thereby carried into whatever is derived next."""
    global WARM
    WARM = bool(flag)


_WARM_PROBES = (None, 0, "a", [], {})


def warm(s):
    if not isinstance(s, Schema):
        return s
    from d42 import fake, represent, validate
    for op in (lambda: represent(s, indent=2), lambda: repr(s), lambda: represent(s), lambda: s == s,
               lambda: hash(s)):
        try:
            op()
        except Exception:  # noqa: BLE001 - warming never judges
            pass
    for v in _WARM_PROBES:
        try:
            validate(s, v)
        except Exception:  # noqa: BLE001
            pass
    try:
        from . import e2
        if isinstance(e2.R_MOD.random, e2.Scripted):
            rng = e2.R_MOD.random
            saved = (rng.prefix, rng.trace, rng.sites)
            e2.run_once(rng, lambda: fake(s), ())
            rng.prefix, rng.trace, rng.sites = saved
    except Exception:  # noqa: BLE001
        pass
    return s


class Builder:
    """Builds real schemas from terms and remembers id(object) -> term for what it created."""

    def __init__(self, track=False, leave_args=False):
        self.track = track
        # leave_args: the containers handed to declarations are left as they were (a "polite"
        # caller) - an independent rebuild made this way must equal the scribbled build
        self.leave_args = leave_args
        self.ids = {}
        self.keep = []   # keeps tracked objects alive so ids stay unique

    def _note(self, obj, term):
        if self.track:
            self.ids[id(obj)] = term
            self.keep.append(obj)
        if WARM:
            warm(obj)
        return obj

    def build(self, t):
        k = t[0]
        if k == "none":
            return self._note(schema.none, t)
        if k in SCALARS:
            s = getattr(schema, k)
            for c in t[1]:
                if WARM:
                    warm(s)
                s = apply_call(s, c)
            return self._note(s, t)
        if k == "list":
            _, spec, calls = t
            s = schema.list
            if spec is not None:
                if spec[0] == "typed":
                    s = s(self.build(spec[1]))
                else:
                    arg = [x if x is E else self.build(x) for x in spec[1]]
                    s = s(arg)
                    if not self.leave_args:
                        arg.clear()          # the caller's list is the caller's
                        arg.append(SCRIBBLE)
            for c in calls:
                if WARM:
                    warm(s)
                s = apply_call(s, c)
            return self._note(s, t)
        if k == "dict":
            _, entries, relaxed = t
            if entries is None:
                return self._note(schema.dict, t)
            d = {}
            # relaxed: True puts `...: ...` last; "first" / "mid" put it first / after the first key
            if relaxed == "first":
                d[E] = E
            for i, (key, opt, sub) in enumerate(entries):
                d[optional(key) if opt else key] = self.build(sub)
                if relaxed == "mid" and i == 0:
                    d[E] = E
            if relaxed and E not in d:
                d[E] = E
            s = schema.dict(d)
            if not self.leave_args:
                d.clear()                    # the caller's dict is the caller's
                d[SCRIBBLE] = SCRIBBLE
            return self._note(s, t)
        if k == "any":
            if t[1] is None:
                return self._note(schema.any, t)
            return self._note(schema.any(*[self.build(x) for x in t[1]]), t)
        if k == "alias":
            return self._note(schema.alias(t[1], self.build(t[2])), t)
        if k == "add":
            return self._note(self.build(t[1]) + self.build(t[2]), t)
        if k == "or":
            return self._note(self.build(t[1]) | self.build(t[2]), t)
        if k == "mkreq":
            d = self.build(t[1])
            return self._note(make_required(d) if t[2] is None else make_required(d, list(t[2])), t)
        if k == "native":
            v = _own_copy(t[1])
            s = from_native(v)
            if not self.leave_args:
                scribble(v)
            return self._note(s, t)
        if k == "subst":
            v = _own_copy(t[2])
            s = substitute(self.build(t[1]), v)
            if not self.leave_args:
                scribble(v)
            return self._note(s, t)
        if k in ("mult", "nmult"):
            from . import fwdtype  # noqa: F401  (registers the types)
            return self._note(getattr(schema, "mc_" + k)(t[1]), t)
        if k == "raw":
            return t[1]            # not a schema at all (an operand / member that must be refused)
        if k == "ualias":
            from . import fwdtype
            return self._note({"slug": fwdtype.SlugSchema, "point": fwdtype.PointSchema}[t[1]](), t)
        if k == "fwd":
            from .fwdtype import wrap
            return self._note(wrap(self.build(t[1]), t[2] if len(t) > 2 else None), t)
        raise ValueError(f"unknown term {t!r}")


def build(t):
    return Builder().build(t)


def try_build(t, leave_args=False):
    """(schema, None) or (None, exception)."""
    try:
        return Builder(leave_args=leave_args).build(t), None
    except Exception as e:  # noqa: BLE001 - the caller classifies it
        return None, e


def fp(x):
    """Structural fingerprint via public props only (absent and Nil are the same thing)."""
    if isinstance(x, Schema):
        p = x.props
        items = []
        for n in p:
            v = p.get(n)
            if v is not Nil:
                items.append((n, fp(v)))
        items.sort()
        return (type(x).__name__, tuple(items))
    if x is E:
        return "<...>"
    if x is Nil:
        return "<Nil>"
    if isinstance(x, (list, tuple)):
        return (type(x).__name__,) + tuple(fp(y) for y in x)
    if isinstance(x, dict):
        return ("dict",) + tuple((_kfp(k), fp(v)) for k, v in x.items())
    if isinstance(x, optional):
        return ("optional", _kfp(x.key))
    return (type(x).__name__, _leaf_repr(x))


def _leaf_repr(x):
    if type(x) is int and x.bit_length() > 14000:
        return hex(x)          # decimal conversion of such an int raises ValueError
    return repr(x)


def _kfp(k):
    if k is E:
        return "<...>"
    return (type(k).__name__, _leaf_repr(k))


def fp_unordered(x):
    """Like fp but insensitive to the insertion order of dict key tables."""
    if isinstance(x, Schema):
        p = x.props
        return (type(x).__name__, tuple(sorted((n, fp_unordered(p.get(n))) for n in p
                                                if p.get(n) is not Nil)))
    if isinstance(x, dict):
        return ("dict",) + tuple(sorted(((_kfp(k), fp_unordered(v)) for k, v in x.items()),
                                        key=repr))
    if isinstance(x, (list, tuple)):
        return (type(x).__name__,) + tuple(fp_unordered(y) for y in x)
    return fp(x)


# ---- term helpers (pure, no d42) ---------------------------------------------------------


def subterms(t):
    """All sub-terms of t including t itself (pre-order)."""
    yield t
    k = t[0]
    if k == "list":
        spec = t[1]
        if spec is not None:
            if spec[0] == "typed":
                yield from subterms(spec[1])
            else:
                for x in spec[1]:
                    if x is not E:
                        yield from subterms(x)
    elif k == "dict":
        if t[1] is not None:
            for _, _, sub in t[1]:
                yield from subterms(sub)
    elif k == "any":
        if t[1] is not None:
            for x in t[1]:
                yield from subterms(x)
    elif k in ("alias",):
        yield from subterms(t[2])
    elif k in ("add", "or"):
        yield from subterms(t[1])
        yield from subterms(t[2])
    elif k in ("mkreq", "subst", "fwd"):
        yield from subterms(t[1])


def unique_subterms(t):
    """Sub-terms without repetition, smallest first (terms may hold unhashable values)."""
    seen, out = set(), []
    for st in subterms(t):
        r = repr(st)
        if r not in seen:
            seen.add(r)
            out.append(st)
    out.sort(key=lambda x: (size(x), repr(x)))
    return out


def depth(t):
    k = t[0]
    subs = []
    if k == "list" and t[1] is not None:
        subs = [t[1][1]] if t[1][0] == "typed" else [x for x in t[1][1] if x is not E]
    elif k == "dict" and t[1] is not None:
        subs = [s for _, _, s in t[1]]
    elif k == "any" and t[1] is not None:
        subs = list(t[1])
    elif k == "alias":
        subs = [t[2]]
    elif k in ("add", "or"):
        subs = [t[1], t[2]]
    elif k in ("mkreq", "subst", "fwd"):
        subs = [t[1]]
    return 1 + max((depth(s) for s in subs), default=0) if subs else 0


def size(t):
    return sum(1 for _ in subterms(t))


def show(t):
    """Compact DSL-like rendering of a term for messages and evidence samples."""
    from .codec import src
    k = t[0]
    if k == "none":
        return "none"
    if k in SCALARS:
        out = k
        for c in t[1]:
            if c[0] == "call":
                out += f"({src(c[1])})"
            else:
                out += "." + c[0] + "(" + ", ".join(src(a) for a in c[1:]) + ")"
        return out
    if k == "list":
        out = "list"
        if t[1] is not None:
            if t[1][0] == "typed":
                out += "(" + show(t[1][1]) + ")"
            else:
                out += "([" + ", ".join("..." if x is E else show(x) for x in t[1][1]) + "])"
        for c in t[2]:
            out += ".len(" + ", ".join(src(a) for a in c[1:]) + ")"
        return out
    if k == "dict":
        if t[1] is None:
            return "dict"
        items = [(f"optional({src(key)})" if opt else src(key)) + ": " + show(sub)
                 for key, opt, sub in t[1]]
        if t[2] == "first":
            items.insert(0, "...: ...")
        elif t[2] == "mid" and items:
            items.insert(1, "...: ...")
        elif t[2]:
            items.append("...: ...")
        return "dict({" + ", ".join(items) + "})"
    if k == "any":
        return "any" if t[1] is None else "any(" + ", ".join(show(x) for x in t[1]) + ")"
    if k == "alias":
        return f"alias({t[1]!r}, {show(t[2])})"
    if k == "add":
        return f"({show(t[1])} + {show(t[2])})"
    if k == "or":
        return f"({show(t[1])} | {show(t[2])})"
    if k == "mkreq":
        return f"make_required({show(t[1])}, {src(t[2])})"
    if k == "native":
        return f"from_native({src(t[1])})"
    if k == "subst":
        return f"({show(t[1])} % {src(t[2])})"
    if k == "ualias":
        return f"UserAlias:{t[1]}"
    if k == "fwd":
        return f"Fwd({show(t[1])})"
    if k in ("mult", "nmult"):
        return f"{'Non' if k == 'nmult' else ''}MultipleOf({t[1]})"
    return repr(t)
