"""Bounded-exhaustive exploration (model checking) of d42 — see /verif/DESIGN.md."""
from . import env  # noqa: F401  (must run before anything imports d42)
