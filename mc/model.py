"""Reference semantics M over terms.  Deliberately boring; imports nothing from d42.

accepts(T, v)   the meaning stated in property C02
sat(T)          T admits at least one conforming value (exact arithmetic on the scalar
                constraints; None = unknown, e.g. a regex with no short witness)
hsat(T)         hereditarily satisfiable: every sub-term is satisfiable
witnesses(T)    finite list of conforming values covering both ends of every interval, every
                list shape, every subset of optional keys, every `any` alternative
resolve(T)      removes alias / add / or / mkreq / native / fwd by their stated meaning
"""
import datetime as _dt
import itertools
import math
import re
import uuid

E = Ellipsis
INF = float("inf")
SCALARS = ("bool", "int", "float", "str", "bytes", "uuid4", "datetime", "date")

FIX_UUID = uuid.UUID("7e1c1b6e-2c2f-4c8b-9b8e-1d2a3b4c5d6e")
FIX_UUID2 = uuid.UUID("3f0b2a5c-8d1e-4f6a-a7b9-0c1d2e3f4a5b")
FIX_DT = _dt.datetime(2020, 1, 2, 3, 4, 5)
FIX_DATE = _dt.date(2020, 1, 2)


class ModelGap(Exception):
    """The model has no statement for this term (never a violation)."""


# ---- props ----------------------------------------------------------------------------------

def props_of(calls):
    """Interprets a call chain into the declared-property table (later calls never override:
    the DSL rejects re-declaration, and terms are only modelled when the DSL accepted them)."""
    p = {}
    for c in calls:
        n = c[0]
        if n == "call":
            p["value"] = c[1]
        elif n in ("min", "max", "precision", "alphabet"):
            p[n] = c[1]
        elif n == "contains":
            p["substr"] = c[1]
        elif n == "regex":
            p["pattern"] = c[1]
        elif n == "len":
            if len(c) == 2:
                if c[1] is not E:
                    p["len"] = c[1]
            else:
                a, b = c[1], c[2]
                if a is E and b is not E:
                    p["max_len"] = b
                elif b is E and a is not E:
                    p["min_len"] = a
                elif a is not E and b is not E:
                    p["min_len"], p["max_len"] = a, b
        else:
            raise ModelGap(c)
    return p


def len_interval(p):
    lo, hi = 0, INF
    if "len" in p:
        lo = hi = p["len"]
    if "min_len" in p:
        lo = max(lo, p["min_len"])
    if "max_len" in p:
        hi = min(hi, p["max_len"])
    return lo, hi


def len_ok(n, p):
    if "len" in p and n != p["len"]:
        return False
    if "min_len" in p and n < p["min_len"]:
        return False
    if "max_len" in p and n > p["max_len"]:
        return False
    return True


def list_shape(items):
    """exact / head / tail / body / bare and the concrete members."""
    conc = tuple(x for x in items if x is not E)
    if len(conc) == len(items):
        return "exact", conc
    if len(items) > 2 and items[0] is E and items[-1] is E:
        return "body", conc
    if len(items) >= 2 and items[-1] is E:
        return "head", conc
    if len(items) == 1:
        return "bare", conc
    return "tail", conc


# ---- resolve ----------------------------------------------------------------------------------

def native_term(v):
    if v is None:
        return ("none",)
    if isinstance(v, bool):
        return ("bool", (("call", v),))
    if isinstance(v, int):
        return ("int", (("call", v),))
    if isinstance(v, float):
        return ("float", (("call", v),))
    if isinstance(v, str):
        return ("str", (("call", v),))
    if isinstance(v, list):
        return ("list", ("elems", tuple(native_term(x) for x in v)), ())
    if isinstance(v, dict):
        return ("dict", tuple((k, False, native_term(x)) for k, x in v.items()), False)
    if isinstance(v, bytes):
        return ("bytes", (("call", v),))
    if isinstance(v, uuid.UUID) and v.version == 4:
        return ("uuid4", (("call", v),))
    if isinstance(v, _dt.datetime):
        return ("datetime", (("call", v),))
    if isinstance(v, _dt.date):
        return ("date", (("call", v),))
    raise ValueError(v)


# user-defined alias classes (mc/fwdtype.py) and the term each stands for by default
UALIAS = {"slug": ("str", (("alphabet", "ab"), ("len", 1, 2))),
          "point": ("dict", (("a", False, ("int", (("min", 0), ("max", 7)))),
                             ("b", True, ("str", (("call", "ab"),)))), False)}


def resolve(t):
    """Top-level normal form: one of none / scalar / list / dict / any."""
    k = t[0]
    if k in ("alias",):
        return resolve(t[2])
    if k == "ualias":
        return resolve(UALIAS[t[1]])
    if k == "fwd":
        return resolve(t[1])
    if k == "native":
        return native_term(t[1])
    if k == "or":
        alts = []
        for x in (t[1], t[2]):
            alts.extend(_flat_alts(x))
        return ("any", tuple(alts))
    if k == "any" and t[1] is not None:
        alts = []
        for x in t[1]:
            alts.extend(_flat_alts(x))
        return ("any", tuple(alts))
    if k == "add":
        a, b = resolve(t[1]), resolve(t[2])
        if a[0] != "dict" or b[0] != "dict":
            raise ModelGap(t)
        ea = a[1] if a[1] is not None else ()
        eb = b[1] if b[1] is not None else ()
        merged = {}
        for key, opt, sub in ea:
            merged[_hk(key)] = (key, opt, sub)
        for key, opt, sub in eb:
            merged[_hk(key)] = (merged.get(_hk(key), (key,))[0], opt, sub)
        return ("dict", tuple(merged.values()), bool(a[2] or b[2]))
    if k == "mkreq":
        d = resolve(t[1])
        if d[0] != "dict":
            raise ModelGap(t)
        if d[1] is None:
            return d
        keys = t[2]
        return ("dict", tuple((key, False if (keys is None or any(_keq(key, x) for x in keys))
                                else opt, sub) for key, opt, sub in d[1]), d[2])
    if k == "subst":
        raise ModelGap(t)
    return t


def _flat_alts(x):
    # only a *directly* given any(...) with declared alternatives is flattened; aliases are not
    if x[0] in ("any", "or"):
        r = resolve(x)
        if r[1] is not None:
            return list(r[1])
        return [r]
    return [x]


def _hk(key):
    try:
        hash(key)
        return ("h", key)
    except TypeError:
        return ("r", repr(key))


def _keq(a, b):
    try:
        return a == b and hash(a) == hash(b)
    except TypeError:
        return False


# ---- accepts -----------------------------------------------------------------------------------

def accepts(t, v):
    t = resolve(t)
    k = t[0]
    if k == "none":
        return v is None
    if k in SCALARS:
        return _accepts_scalar(k, props_of(t[1]), v)
    if k == "list":
        _, spec, calls = t
        if not isinstance(v, list):
            return False
        if not len_ok(len(v), props_of(calls)):
            return False
        if spec is None:
            return True
        if spec[0] == "typed":
            return all(accepts(spec[1], x) for x in v)
        shape, conc = list_shape(spec[1])
        n = len(conc)
        if shape == "bare":
            return True
        if shape == "exact":
            return len(v) == n and all(accepts(e, x) for e, x in zip(conc, v))
        if shape == "head":
            return len(v) >= n and all(accepts(e, x) for e, x in zip(conc, v))
        if shape == "tail":
            return len(v) >= n and all(accepts(e, x) for e, x in zip(conc, v[len(v) - n:]))
        return any(all(accepts(e, x) for e, x in zip(conc, v[i:i + n]))
                   for i in range(0, len(v) - n + 1))
    if k == "dict":
        _, entries, relaxed = t
        if not isinstance(v, dict):
            return False
        if entries is None:
            return True
        for key, opt, sub in entries:
            if key in v:
                if not accepts(sub, v[key]):
                    return False
            elif not opt:
                return False
        if relaxed:
            return True
        declared = [key for key, _, _ in entries]
        return all(any(_keq(x, d) for d in declared) for x in v)
    if k == "any":
        if t[1] is None:
            return True
        return any(accepts(x, v) for x in t[1])
    if k in ("mult", "nmult"):
        return isinstance(v, int) and ((v % t[1] == 0) == (k == "mult"))
    raise ModelGap(t)


def _finite(x):
    return isinstance(x, float) and math.isfinite(x)


def _accepts_scalar(k, p, v):
    if k == "bool":
        return isinstance(v, bool) and ("value" not in p or v == p["value"])
    if k == "int":
        return (isinstance(v, int) and ("value" not in p or v == p["value"])
                and ("min" not in p or v >= p["min"]) and ("max" not in p or v <= p["max"]))
    if k == "float":
        if not isinstance(v, float):
            return False
        if "value" in p:
            if v != v and p["value"] != p["value"]:
                pass        # a schema pinned to nan accepts nan (the one float unequal to itself)
            elif "precision" in p:
                s = 10 ** p["precision"]
                a, b = v * s, p["value"] * s
                if _finite(a) and _finite(b):
                    if round(a) != round(b):
                        return False
                elif v != p["value"]:
                    return False
            elif not math.isclose(v, p["value"]):
                return False
        return ("min" not in p or v >= p["min"]) and ("max" not in p or v <= p["max"])
    if k == "str":
        if not isinstance(v, str):
            return False
        if "value" in p and v != p["value"]:
            return False
        if "pattern" in p and re.search(p["pattern"], v) is None:
            return False
        if not len_ok(len(v), p):
            return False
        if "substr" in p and p["substr"] not in v:
            return False
        if "alphabet" in p and any(c not in p["alphabet"] for c in v):
            return False
        return True
    if k == "bytes":
        return isinstance(v, bytes) and ("value" not in p or v == p["value"])
    if k == "uuid4":
        return (isinstance(v, uuid.UUID) and v.version == 4
                and ("value" not in p or v == p["value"]))
    if k == "datetime":
        return isinstance(v, _dt.datetime) and ("value" not in p or v == p["value"])
    if k == "date":
        return isinstance(v, _dt.date) and ("value" not in p or v == p["value"])
    raise ModelGap(k)


# ---- satisfiability -------------------------------------------------------------------------------

def grid_bounds(lo, hi, prec):
    """Smallest and largest integers k with lo <= round(k / 10**prec, prec) <= hi, or None."""
    s = 10 ** prec

    def val(k):
        return round(k / s, prec)

    k_lo = math.floor(lo * s) - 2
    while val(k_lo) < lo:
        k_lo += 1
        if k_lo > math.floor(lo * s) + 4:
            return None
    k_hi = math.ceil(hi * s) + 2
    while val(k_hi) > hi:
        k_hi -= 1
        if k_hi < math.ceil(hi * s) - 4:
            return None
    if k_lo > k_hi:
        return None
    return k_lo, k_hi


def _sat_scalar(k, p):
    if "value" in p:
        # the DSL only lets a value coexist with constraints it satisfies; re-check by meaning
        v = p["value"]
        if k == "float" and isinstance(v, float) and v != v:
            return False   # nan equals nothing
        return any(_accepts_scalar(k, p, c) for c in _pin_candidates(k, p))
    if k == "int":
        return not ("min" in p and "max" in p and p["min"] > p["max"])
    if k == "float":
        lo = p.get("min", -INF)
        hi = p.get("max", INF)
        if lo != lo or hi != hi:
            return None
        if lo > hi:
            return False
        if "precision" in p:
            glo = p.get("min", -(2.0 ** 63))
            ghi = p.get("max", 2.0 ** 63 - 1)
            if not (math.isfinite(glo) and math.isfinite(ghi)):
                return None
            # meaning-wise any float in [lo, hi] conforms (precision is not a constraint on
            # un-pinned floats), but a generator restricted to the grid needs a grid point;
            # where the grid is empty, or a declared bound lies beyond the opposite default,
            # the model makes no statement (None) and the case is left out
            if glo > ghi:
                return None
            return True if grid_bounds(glo, ghi, p["precision"]) else None
        return True
    if k == "str":
        if "pattern" in p:
            return True if _pattern_witnesses(p) else None
        lo, hi = len_interval(p)
        sub = p.get("substr", "")
        if "alphabet" in p:
            if any(c not in p["alphabet"] for c in sub):
                return False
            if p["alphabet"] == "" and max(lo, len(sub)) > 0:
                return False
        return max(lo, len(sub), 0) <= hi
    return True


def sat(t):
    try:
        t = resolve(t)
    except ModelGap:
        return None
    k = t[0]
    if k == "none":
        return True
    if k in SCALARS:
        return _sat_scalar(k, props_of(t[1]))
    if k == "list":
        _, spec, calls = t
        lo, hi = len_interval(props_of(calls))
        if max(lo, 0) > hi:
            return False
        if spec is None:
            return True
        if spec[0] == "typed":
            if max(lo, 0) == 0:
                return True
            return sat(spec[1])
        shape, conc = list_shape(spec[1])
        n = len(conc)
        if shape == "exact":
            if not (lo <= n <= hi):
                return False
        elif hi < n:
            return False
        rs = [sat(x) for x in conc]
        if any(r is False for r in rs):
            return False
        return None if any(r is None for r in rs) else True
    if k == "dict":
        if t[1] is None:
            return True
        rs = [sat(sub) for _, opt, sub in t[1] if not opt]
        if any(r is False for r in rs):
            return False
        return None if any(r is None for r in rs) else True
    if k == "any":
        if t[1] is None:
            return True
        rs = [sat(x) for x in t[1]]
        if any(r is True for r in rs):
            return True
        return None if any(r is None for r in rs) else False
    if k in ("mult", "nmult"):
        return True
    return None


def hsat(t):
    """True only if t and every sub-term (after resolve) is known satisfiable."""
    try:
        t = resolve(t)
    except ModelGap:
        return False
    if sat(t) is not True:
        return False
    k = t[0]
    if k == "list" and t[1] is not None:
        subs = [t[1][1]] if t[1][0] == "typed" else [x for x in t[1][1] if x is not E]
        return all(hsat(s) for s in subs)
    if k == "dict" and t[1] is not None:
        return all(hsat(s) for _, _, s in t[1])
    if k == "any" and t[1] is not None:
        return all(hsat(s) for s in t[1])
    return True


# ---- witnesses ---------------------------------------------------------------------------------

_POOL = None


def _str_pool():
    global _POOL
    if _POOL is None:
        chars = "ab.c1_ A"
        pool = [""]
        for n in (1, 2, 3):
            pool.extend("".join(x) for x in itertools.product(chars, repeat=n))
        pool.extend(["aaaa", "abab", "aabb", "a" * 33, "ab" * 20, "\n", "a\n", "é"])
        _POOL = pool
    return _POOL


_PW_CACHE = {}


def _pattern_witnesses(p):
    key = (p["pattern"], p.get("value"))
    if key not in _PW_CACHE:
        if "value" in p:
            _PW_CACHE[key] = [p["value"]] if _accepts_scalar("str", p, p["value"]) else []
        else:
            out = [s for s in _str_pool() if _accepts_scalar("str", p, s)]
            _PW_CACHE[key] = out[:6]
    return _PW_CACHE[key]


def _pin_candidates(k, p):
    """Values that may conform to a pinned scalar: the pin itself and, for a float with a
    precision, the other members of its rounding cell that matter (the rounded pin, the bounds)."""
    v = p["value"]
    out = [v]
    if k == "float" and "precision" in p and isinstance(v, float) and math.isfinite(v):
        out.append(round(v, p["precision"]))
        out += [b for b in (p.get("min"), p.get("max")) if isinstance(b, float) and math.isfinite(b)]
    return out


def _w_scalar(k, p):
    if "value" in p:
        return _pin_candidates(k, p)
    if k == "bool":
        return [True, False]
    if k == "int":
        lo, hi = p.get("min"), p.get("max")
        if lo is not None and hi is not None:
            return _uniq([lo, hi, (lo + hi) // 2])
        if lo is not None:
            return [lo, lo + 1, lo + 100]
        if hi is not None:
            return [hi, hi - 1, hi - 100]
        return [0, -1, 7, 2 ** 70]     # 0 first: falsy values are witnesses too
    if k == "float":
        lo, hi = p.get("min"), p.get("max")
        if lo is not None and hi is not None:
            return _uniq([lo, hi, (lo + hi) / 2])
        if lo is not None:
            return [lo, lo + 1.0, lo * 2 + 100.0] if math.isfinite(lo) else [lo]
        if hi is not None:
            return [hi, hi - 1.0, hi * 2 - 100.0] if math.isfinite(hi) else [hi]
        return [0.0, -1.5, 7.25, 1e300]
    if k == "str":
        if "pattern" in p:
            return list(_pattern_witnesses(p))
        lo, hi = len_interval(p)
        sub = p.get("substr", "")
        alpha = p.get("alphabet")
        lo = max(lo, len(sub), 0)
        out = []
        lens = _uniq([lo, lo + 1, lo + 2] + ([hi] if hi != INF else []))
        for n in lens:
            if n > hi or n > 2000:
                continue
            pad = n - len(sub)
            if pad > 0 and alpha == "":
                continue
            f0 = alpha[0] if alpha else "x"
            f1 = alpha[-1] if alpha else "y"
            out.append(sub + f0 * pad)
            out.append(f1 * pad + sub)
            if pad >= 2:
                out.append(f0 + sub + f1 * (pad - 1))
        return _uniq(out)
    if k == "bytes":
        return [b"", b"ab"]
    if k == "uuid4":
        return [FIX_UUID, FIX_UUID2]
    if k == "datetime":
        return [FIX_DT, _dt.datetime(1999, 12, 31)]
    if k == "date":
        return [FIX_DATE, _dt.date(1999, 12, 31)]
    return []


def _uniq(xs):
    out = []
    for x in xs:
        if not any(type(x) is type(y) and x == y for y in out):
            out.append(x)
    return out


def witnesses(t, limit=8):
    """Conforming values of t (every one re-checked with accepts)."""
    try:
        r = resolve(t)
    except ModelGap:
        return []
    out = [v for v in _witnesses(r, limit) if accepts(r, v)]
    return out[:limit]


def _witnesses(t, limit):
    k = t[0]
    if k == "none":
        return [None]
    if k in ("mult", "nmult"):
        return [t[1] * 2, t[1], t[1] * 5, 0, -t[1]] if k == "mult" else [t[1] * 2 + 1, 1, -1, t[1] - 1]
    if k in SCALARS:
        return _w_scalar(k, props_of(t[1]))
    if k == "list":
        _, spec, calls = t
        p = props_of(calls)
        lo, hi = len_interval(p)
        lo = max(lo, 0)
        out = []
        if spec is None or (spec[0] == "elems" and list_shape(spec[1])[0] == "bare"):
            for n in _uniq([lo, lo + 1, 2] + ([hi] if hi != INF else [])):
                if lo <= n <= hi and n <= 64:
                    out.append([None, 0, "a", [1]][:n] + [None] * max(0, n - 4))
            return out
        if spec[0] == "typed":
            ws = witnesses(spec[1], 4)
            for n in _uniq([lo, lo + 1, lo + 2] + ([hi] if hi != INF else [])):
                if not (lo <= n <= hi) or n > 64:
                    continue
                if n == 0:
                    out.append([])
                elif ws:
                    out.append([_cp(ws[i % len(ws)]) for i in range(n)])
                    if len(ws) > 1:
                        out.append([_cp(ws[(i + 1) % len(ws)]) for i in range(n)])
            return out
        shape, conc = list_shape(spec[1])
        cw = [witnesses(x, 3) for x in conc]
        if any(not w for w in cw):
            return []
        cores = [[_cp(w[0]) for w in cw]]
        if any(len(w) > 1 for w in cw):
            cores.append([_cp(w[-1]) for w in cw])
        pads = [[], [None], [0, "zz"]]
        for core in cores:
            if shape == "exact":
                out.append(core)
            elif shape == "head":
                out.extend(core + _cp(x) for x in pads)
            elif shape == "tail":
                out.extend(_cp(x) + core for x in pads)
            else:
                out.extend([core, [None] + _cp(core), _cp(core) + [0], [None] + _cp(core) + [0]])
        # honour the length bounds by padding where the shape allows it
        fixed = []
        for v in out:
            n = len(v)
            if n < lo and shape != "exact":
                extra = [None] * (lo - n)
                v = v + extra if shape in ("head", "body") else extra + v
            fixed.append(v)
        return fixed
    if k == "dict":
        _, entries, relaxed = t
        if entries is None:
            return [{}, {"zz": 1}]
        opt_keys = [i for i, (_, opt, _) in enumerate(entries) if opt]
        ws = [witnesses(sub, 3) for _, _, sub in entries]
        out = []
        subsets = []
        for r in range(len(opt_keys) + 1):
            subsets.extend(itertools.combinations(opt_keys, r))
        for which in (0, -1):
            for present in subsets[:8]:
                d = {}
                ok = True
                for i, (key, opt, _) in enumerate(entries):
                    if opt and i not in present:
                        continue
                    if not ws[i]:
                        if opt:
                            continue
                        ok = False
                        break
                    d[key] = _cp(ws[i][which])
                if ok:
                    out.append(d)
                    if relaxed:
                        d2 = dict(d)
                        d2["zz"] = 1
                        out.append(d2)
        return _uniq_repr(out)
    if k == "any":
        if t[1] is None:
            return [None, 1, "a"]
        out = []
        for x in t[1]:
            out.extend(witnesses(x, 2))
        return _uniq_repr(out)
    return []


def _uniq_repr(xs):
    seen, out = set(), []
    for x in xs:
        r = repr(x)
        if r not in seen:
            seen.add(r)
            out.append(x)
    return out


def _cp(v):
    if isinstance(v, list):
        return [_cp(x) for x in v]
    if isinstance(v, dict):
        return {k: _cp(x) for k, x in v.items()}
    return v
