"""Single-parameter variants of a term (one declared parameter, key, flag, element or
alternative changed; ellipsis moved).  Pure term surgery; whether a variant is declarable is
found out by building it."""
from .universe import INT, NONE, STR

E = Ellipsis


def _bump(v):
    if isinstance(v, bool):
        return not v
    if isinstance(v, int):
        return v + 1
    if isinstance(v, float):
        return v + 0.5
    if isinstance(v, str):
        return v + "z"
    if isinstance(v, bytes):
        return v + b"z"
    return None


def _call_variants(calls):
    out = []
    for i, c in enumerate(calls):
        out.append(calls[:i] + calls[i + 1:])                      # drop the call
        for j in range(1, len(c)):
            b = _bump(c[j])
            if b is not None:
                out.append(calls[:i] + (c[:j] + (b,) + c[j + 1:],) + calls[i + 1:])
        if c[0] == "len" and len(c) == 2 and isinstance(c[1], int):
            out.append(calls[:i] + (("len", c[1], E),) + calls[i + 1:])
            out.append(calls[:i] + (("len", E, c[1]),) + calls[i + 1:])
    return out


def variants(t, depth=0):
    k = t[0]
    out = []
    if k == "none":
        return [INT]
    if k in ("bool", "int", "float", "str", "bytes", "uuid4", "datetime", "date"):
        for cs in _call_variants(t[1]):
            out.append((k, cs))
        if k == "int" and not t[1]:
            out += [("int", (("min", 0),)), ("int", (("call", 0),))]
        if k == "str" and not t[1]:
            out += [("str", (("len", 0, E),)), ("str", (("alphabet", "a"),))]
        return out
    if k == "list":
        _, spec, calls = t
        for cs in _call_variants(calls):
            out.append(("list", spec, cs))
        if not calls:
            out.append(("list", spec, (("len", 1, E),)))
        if spec is None:
            out += [("list", ("typed", INT), calls), ("list", ("elems", (E,)), calls)]
        elif spec[0] == "typed":
            out += [("list", None, calls), ("list", ("elems", (spec[1], E)), calls)]
            if depth < 2:
                out += [("list", ("typed", v), calls) for v in variants(spec[1], depth + 1)]
        else:
            items = spec[1]
            for i in range(len(items)):
                out.append(("list", ("elems", items[:i] + items[i + 1:]), calls))
                if items[i] is not E and depth < 2:
                    for v in variants(items[i], depth + 1)[:6]:
                        out.append(("list", ("elems", items[:i] + (v,) + items[i + 1:]), calls))
            out.append(("list", ("elems", items + (INT,)), calls))
            out.append(("list", ("elems", tuple(reversed(items))), calls))
            conc = tuple(x for x in items if x is not E)
            for alt in (conc, conc + (E,), (E,) + conc, (E,) + conc + (E,)):
                if alt != items:
                    out.append(("list", ("elems", alt), calls))
        return out
    if k == "dict":
        _, entries, relaxed = t
        out.append(("dict", entries, not relaxed))
        if entries is None:
            return out + [("dict", (), False)]
        out.append(("dict", None, False))
        for i, (key, opt, sub) in enumerate(entries):
            out.append(("dict", entries[:i] + ((key, not opt, sub),) + entries[i + 1:], relaxed))
            out.append(("dict", entries[:i] + entries[i + 1:], relaxed))
            if isinstance(key, str):
                out.append(("dict", entries[:i] + ((key + "_", opt, sub),) + entries[i + 1:], relaxed))
            if depth < 2:
                for v in variants(sub, depth + 1)[:6]:
                    out.append(("dict", entries[:i] + ((key, opt, v),) + entries[i + 1:], relaxed))
        out.append(("dict", entries + (("zz", False, NONE),), relaxed))
        if len(entries) >= 2:
            out.append(("dict", tuple(reversed(entries)), relaxed))
        return out
    if k == "any":
        if t[1] is None:
            return [("any", (INT,))]
        alts = t[1]
        out.append(("any", None))
        for i in range(len(alts)):
            if len(alts) > 1:
                out.append(("any", alts[:i] + alts[i + 1:]))
            if depth < 2:
                for v in variants(alts[i], depth + 1)[:6]:
                    out.append(("any", alts[:i] + (v,) + alts[i + 1:]))
        out.append(("any", alts + (NONE,)))
        if len(alts) >= 2:
            out.append(("any", tuple(reversed(alts))))
        return out
    if k == "alias":
        out.append(("alias", t[1] + "_", t[2]))
        out.append(t[2])
        if depth < 2:
            out += [("alias", t[1], v) for v in variants(t[2], depth + 1)[:8]]
        return out
    if k in ("add", "or"):
        out += [(k, t[2], t[1]), t[1], t[2]]
        return out
    if k == "mkreq":
        return [t[1], ("mkreq", t[1], None)]
    if k == "native":
        b = _bump(t[1])
        return [("native", b)] if b is not None else [("native", None)]
    return out
