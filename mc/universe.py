"""The schema universe U: a layered, deterministic, finite set of terms (DESIGN 2.2).

Everything here is plain data; nothing is sampled.  `universe(tier)` returns the same list in
the same order on every call.
"""
import datetime as _dt
import itertools
import math

from . import model as M

E = Ellipsis


def S(kind, *calls):
    return (kind, tuple(calls))


def call(v):
    return ("call", v)


def ln(*a):
    return ("len",) + a


INT = S("int")
STR = S("str")
NONE = ("none",)
BOOL = S("bool")


def scalars(tier):
    T = tier == "thorough"
    out = []
    # --- int
    out += [
        INT, S("int", call(0)), S("int", call(7)), S("int", call(True)),
        S("int", ("min", 0)), S("int", ("max", 7)), S("int", ("min", 0), ("max", 7)),
        S("int", ("min", 7), ("max", 7)), S("int", ("min", -3), ("max", -1)),
        S("int", ("min", 2 ** 63)), S("int", ("max", -2 ** 63 - 1)),
        S("int", ("min", 2 ** 63 - 1)), S("int", ("max", -2 ** 63)),
        S("int", call(7), ("min", 0)), S("int", call(7), ("max", 7)),
        S("int", call(7), ("min", 0), ("max", 9)),
        S("int", ("min", 5), ("max", 3)),
    ]
    if T:
        out += [S("int", call(-1)), S("int", call(2 ** 70)), S("int", ("min", 2 ** 64), ("max", 2 ** 64 + 2)),
                S("int", ("max", 0), ("min", 0)), S("int", ("min", True)), S("int", ("min", -2 ** 64)),
                S("int", ("max", 2 ** 64)), S("int", call(0), ("min", 0), ("max", 0))]
    # --- float
    out += [
        S("float"), S("float", call(1.5)), S("float", call(0.0)),
        S("float", call(1.5), ("precision", 1)), S("float", call(1.55), ("precision", 1)),
        S("float", ("min", 0.15), ("max", 0.35)),
        S("float", ("min", 0.15), ("max", 0.35), ("precision", 1)),
        S("float", ("min", 0.29), ("max", 0.31), ("precision", 2)),
        S("float", ("min", -0.35), ("max", -0.15), ("precision", 1)),
        S("float", ("min", 1.0), ("max", 2.0), ("precision", 2)),
        S("float", ("min", 0.3), ("max", 0.3), ("precision", 1)),
        S("float", ("min", 1e19)), S("float", ("max", -1e19)),
        S("float", ("precision", 3)), S("float", ("min", 0.0)), S("float", ("max", 0.0)),
        S("float", call(1.5), ("min", 1.0), ("max", 2.0)),
        # pinned ON its bound: what the pin tolerates, the bound does not
        S("float", call(1.0), ("min", 1.0)), S("float", call(2.5), ("max", 2.5)),
        S("float", call(2.5), ("precision", 1), ("min", 2.5)),
        S("int", call(1)), S("int", call(False)),
        S("float", ("min", 2.5), ("max", 1.5)),
        # an interval of a single value / of two adjacent floats, without precision (non-dyadic
        # end points: interpolating between them in floating point can step outside)
        S("float", ("min", 123.456), ("max", 123.456)), S("float", ("min", 0.1), ("max", 0.1)),
        S("float", ("min", -58.3), ("max", -58.3)),
        S("float", ("min", 0.3), ("max", 0.30000000000000004)),
        S("float", ("min", 1e308), ("max", 1.7976931348623157e308)),
        S("float", ("min", -1e308), ("max", 1e308)),
    ]
    # bounds one ulp off a grid point (the float product bound * 10**p then rounds onto the grid)
    for g, p in ((1.7, 1), (0.8, 2), (0.3, 1), (2.675, 3)):
        up, dn = math.nextafter(g, math.inf), math.nextafter(g, -math.inf)
        out += [S("float", ("min", up), ("max", g + 1.0), ("precision", p)),
                S("float", ("min", g - 1.0), ("max", dn), ("precision", p)),
                S("float", ("min", -g), ("max", -dn + 1.0), ("precision", p)) if T else
                S("float", ("min", -(g + 1.0)), ("max", -up), ("precision", p)),
                S("float", ("min", dn), ("max", up), ("precision", p))]
    if T:
        out += [S("float", ("min", 0.7), ("max", 0.9), ("precision", 1)),
                S("float", ("min", -0.31), ("max", -0.29), ("precision", 2)),
                S("float", ("min", 0.0), ("max", 0.0), ("precision", 2)),
                S("float", ("min", 1e19), ("max", 2e19)), S("float", ("min", -2e19), ("max", -1e19)),
                S("float", ("min", 0.001), ("max", 0.002), ("precision", 3)),
                S("float", ("min", 1.005), ("max", 1.015), ("precision", 2)),
                S("float", ("min", 100.0), ("precision", 1)), S("float", ("max", -100.0), ("precision", 1)),
                S("float", call(1.5), ("precision", 15)), S("float", call(-0.0)),
                S("float", call(2.675), ("precision", 2)), S("float", call(1e300))]
    # --- str
    out += [
        STR, S("str", call("")), S("str", call("ab")),
        S("str", ln(0)), S("str", ln(2)), S("str", ln(1, 3)), S("str", ln(1, E)),
        S("str", ln(E, 2)), S("str", ln(33)), S("str", ln(40, E)), S("str", ln(E, 0)),
        S("str", ("alphabet", "ab")), S("str", ("alphabet", "a"), ln(2)), S("str", ("alphabet", "")),
        S("str", ("alphabet", "ab"), ln(1, 3)),
        S("str", ("contains", "ab")), S("str", ("contains", "ab"), ln(2)),
        S("str", ("contains", "ab"), ln(2, 4)), S("str", ("contains", "ab"), ln(E, 3)),
        S("str", ("contains", "a"), ("alphabet", "ab")), S("str", ("contains", "ab"), ln(40, E)),
        S("str", ("contains", ""), ln(1)), S("str", ("contains", "ab"), ln(1, E)),
        S("str", ("contains", "ab"), ln(33, 35)),
        S("str", ("regex", "a")), S("str", ("regex", "[ab]+")), S("str", ("regex", "^a.$")),
        S("str", ("regex", "a{2}")), S("str", call("ab"), ("regex", "a")),
        S("str", ("regex", "\\d\\w")), S("str", ("regex", "^[a-c][^\\d]$")),
        S("str", ("regex", "[^a-c]x")), S("str", ("regex", "[^\\w][^ab]")), S("str", ("regex", "[^x-~]{2}")),
        # negated classes whose complement lies wholly in the punctuation of the default alphabet
        S("str", ("regex", "^[^\\w -]$")), S("str", ("regex", "[^a-zA-Z0-9_ -]{1,2}")),
        S("str", ("regex", "^\\w[^\\w ]\\d$")),
        S("str", call("ab"), ln(2)), S("str", call("ab"), ("alphabet", "abc")),
        S("str", call("ab"), ("contains", "b")), S("str", call("ab"), ln(1, 3)),
        S("str", ln(2), ("alphabet", "")), S("str", ("contains", "c"), ("alphabet", "ab")),
        # falsy constraints next to a pattern (declaration rejects them today; were it to accept
        # them, generation and validation would have to agree)
        S("str", ln(0), ("regex", "a*")), S("str", ("alphabet", ""), ("regex", "a*")),
        S("str", ("contains", ""), ("regex", "a+")),
        S("str", ln(1), ("contains", "ab")),
    ]
    if T:
        out += [S("str", ln(32)), S("str", ln(32, E)), S("str", ln(33, E)), S("str", ln(E, 33)),
                S("str", ln(0, 0)), S("str", ln(2, 2)), S("str", ln(3, 1)),
                S("str", ("alphabet", "ab"), ("contains", "ba"), ln(2, 3)),
                S("str", ("alphabet", "a"), ln(E, 1)), S("str", ("alphabet", ""), ln(0)),
                S("str", ("alphabet", ""), ln(E, 3)), S("str", ("contains", "abc"), ln(3)),
                S("str", ("contains", "a"), ln(E, 1)), S("str", ("contains", "ab"), ln(3, E)),
                S("str", ("regex", "^[a-c]{2,3}$")), S("str", ("regex", "\\d\\w")),
                S("str", ("regex", "(a|b)c?")), S("str", ("regex", "[^a]")),
                S("str", call("abc"), ("regex", "b")), S("str", call(""), ln(0)),
                S("str", call("a"), ("alphabet", "a"), ("contains", "a"), ln(1))]
    # --- the rest
    out += [BOOL, S("bool", call(True)), S("bool", call(False)), NONE,
            S("bytes"), S("bytes", call(b"ab")), S("uuid4"), S("uuid4", call(M.FIX_UUID)),
            S("datetime"), S("datetime", call(M.FIX_DT)), S("date"), S("date", call(M.FIX_DATE)),
            ("any", None)]
    if T:
        out += [S("bytes", call(b"")), S("date", call(M.FIX_DT)),
                S("datetime", call(_dt.datetime(2020, 1, 2, tzinfo=_dt.timezone.utc)))]
    return out


def children(tier):
    K = [INT, S("int", ("min", 0), ("max", 7)), S("str", call("ab")),
         S("str", ("alphabet", "ab"), ln(1, 2)), BOOL, NONE,
         S("float", ("min", 0.15), ("max", 0.35)), ("any", (INT, STR))]
    if tier == "thorough":
        K += [S("int", call(7)), S("str", ("regex", "^a.$")), S("float", call(1.5), ("precision", 1)),
              S("bytes"), S("uuid4"), S("date"), S("str", ("contains", "ab"), ln(2, 4)),
              S("float", ("min", 0.29), ("max", 0.31), ("precision", 2))]
    return K


LEN_FORMS = [(), (ln(0),), (ln(2),), (ln(1, 3),), (ln(17, E),), (ln(E, 1),), (ln(E, 0),), (ln(0, 0),)]


def containers_over(K, K4, tier):
    """L1: every container shape over children K (typed lists) / K4 (element lists, dicts)."""
    T = tier == "thorough"
    out = []
    for c in K:
        for lf in LEN_FORMS:
            out.append(("list", ("typed", c), lf))
    for lf in LEN_FORMS:
        out.append(("list", None, lf))
    max_n = 3 if T else 2
    for n in range(1, max_n + 1):
        pool = K4 if n < 3 else K4[:3]
        for es in itertools.product(pool, repeat=n):
            out.append(("list", ("elems", es), ()))
            out.append(("list", ("elems", es + (E,)), ()))
            out.append(("list", ("elems", (E,) + es), ()))
            out.append(("list", ("elems", (E,) + es + (E,)), ()))
    a, b = K4[0], K4[2]
    out += [
        ("list", ("elems", ()), ()), ("list", ("elems", (E,)), ()),
        ("list", ("elems", (E,)), (ln(2),)), ("list", ("elems", ()), (ln(0),)),
        ("list", ("elems", (a, E)), (ln(3),)), ("list", ("elems", (a, E)), (ln(1),)),
        ("list", ("elems", (E, a)), (ln(3),)), ("list", ("elems", (E, a, E)), (ln(3),)),
        ("list", ("elems", (a, b)), (ln(2),)), ("list", ("elems", (a, E)), (ln(E, 2),)),
        ("list", ("elems", (E, a)), (ln(1, E),)), ("list", ("elems", (a, b, E)), (ln(2, 4),)),
        ("list", ("elems", (E, a, b, E)), (ln(E, 3),)), ("list", ("elems", (a, E)), (ln(20),)),
    ]
    # dicts over keys a, b
    opts = [None, ("req", K4[0]), ("opt", K4[2]), ("req", K4[2]), ("opt", K4[0])]
    for ea in opts[:3] if not T else opts:
        for eb in (opts[0], opts[3], opts[4]):
            for rel in (False, True):
                entries = []
                if ea:
                    entries.append(("a", ea[0] == "opt", ea[1]))
                if eb:
                    entries.append(("b", eb[0] == "opt", eb[1]))
                out.append(("dict", tuple(entries), rel))
    out.append(("dict", None, False))
    if T:
        out += [("dict", ((1, False, a), ((1, 2), True, b), (None, False, K4[1])), False),
                ("dict", (("a", False, a), ("b", False, b), ("c", True, K4[1])), True),
                ("dict", (("", False, a),), False)]
    # every atom kind in every position (typed list, element, dict value, any alternative, alias)
    atoms = [BOOL, NONE, S("bytes"), S("uuid4"), S("datetime"), S("date"), S("float"),
             S("datetime", call(M.FIX_DT)), S("date", call(M.FIX_DATE)), S("uuid4", call(M.FIX_UUID)),
             S("bytes", call(b"ab")), S("bool", call(False)), S("float", call(1.5))]
    for x in atoms:
        out += [("any", (x, NONE)), ("any", (INT, x)), ("list", ("typed", x), ()),
                ("list", ("elems", (x, E)), ()), ("dict", (("a", False, x),), False),
                ("dict", (("a", True, x),), True), ("alias", "X", x)]
    # any / alias
    out += [("any", (K4[0],)), ("any", (K4[0], K4[2])), ("any", (S("int", call(7)), K4[2])),
            ("any", (NONE, ("list", ("typed", INT), ()))), ("any", (K4[1], K4[3], NONE)),
            ("alias", "A", K4[1]), ("alias", "B", ("list", ("typed", K4[0]), (ln(1, 3),)))]
    return out


def reps_l1(K4, tier="quick"):
    a, s = K4[1], K4[2]
    extra = []
    if tier == "thorough":
        extra = [
            ("list", ("typed", K4[3]), (ln(2),)), ("list", ("typed", K4[0]), (ln(E, 1),)),
            ("list", ("elems", (K4[0], s, E)), ()), ("list", ("elems", (E, K4[0], s)), ()),
            ("list", ("elems", (E, K4[0], s, E)), ()), ("list", ("elems", (K4[0], E)), (ln(3),)),
            ("list", ("elems", ()), ()), ("list", ("elems", (E,)), ()), ("list", None, (ln(1, 2),)),
            ("dict", (("a", True, K4[0]), ("b", True, s)), True), ("dict", (), False),
            ("dict", None, False), ("dict", ((1, False, K4[0]), (None, True, s)), False),
            ("any", (K4[0], s, NONE)), ("any", None), ("any", (("any", None), K4[0])),
            S("float", ("min", 0.15), ("max", 0.35), ("precision", 1)), S("str", ("contains", "ab"), ln(2, 4)),
            S("str", ("regex", "^a.$")), S("uuid4"), S("bytes", call(b"ab")), S("date"),
        ]
    return extra + [
        ("list", ("typed", a), (ln(1, 3),)),
        ("list", ("elems", (K4[0], E)), ()),
        ("list", ("elems", (E, s)), ()),
        ("list", ("elems", (E, K4[0], E)), ()),
        ("list", ("elems", (K4[0], s)), ()),
        ("dict", (("a", False, K4[0]), ("b", True, s)), False),
        ("dict", (("a", False, K4[0]),), True),
        ("any", (K4[0], s)),
        ("alias", "A", a),
    ]


def wrap(c):
    return [
        ("list", ("typed", c), ()), ("list", ("typed", c), (ln(2),)),
        ("list", ("elems", (c,)), ()), ("list", ("elems", (c, E)), ()),
        ("list", ("elems", (E, c)), ()), ("list", ("elems", (E, c, E)), ()),
        ("dict", (("a", False, c),), False), ("dict", (("a", True, c), ("b", False, INT)), False),
        ("dict", (("a", False, c),), True), ("any", (c, NONE)), ("alias", "W", c),
    ]


def special_shapes(tier):
    """Shapes that exercise a shortcut one can imagine in a visitor (each one was the trigger of a
    seeded change in the detection audit)."""
    li, ls = ("list", ("typed", INT), ()), ("list", ("typed", STR), ())
    da, ds = ("dict", (("a", False, INT),), False), ("dict", (("a", False, STR),), False)
    braces = ("dict", (("/u/{id}", False, INT), ("{}", True, STR), ("{0}", True, NONE)), False)
    return [
        # alternatives of one schema class that differ only in their nested members
        ("any", (li, ls)), ("any", (da, ds)), ("any", (("alias", "I", INT), ("alias", "S", STR))),
        ("any", (("list", ("elems", (INT,)), ()), ("list", ("elems", (STR,)), ()))),
        ("any", (("list", ("elems", (INT, E)), ()), ("list", ("elems", (E, STR)), ()))),
        # None / falsy keys (a key is not a flag), at depth 0, 1 and 2
        ("dict", ((None, False, INT), ("a", True, STR)), False),
        ("dict", ((None, False, li),), False),
        ("dict", ((None, True, ("dict", ((None, False, INT),), False)),), True),
        ("dict", ((0, False, INT), ("", True, STR)), False),
        ("list", ("typed", ("dict", ((None, False, INT),), False)), ()),
        # an alias of an alias (and of that), at the root and below it
        ("alias", "Outer", ("alias", "Inner", S("int", ("min", 1)))),
        ("dict", (("a", False, ("alias", "Outer", ("alias", "Inner", S("int", ("min", 1))))),), False),
        ("list", ("typed", ("alias", "O3", ("alias", "O2", ("alias", "O1", S("str", ln(1, 2)))))), ()),
        ("list", ("elems", (INT, ("alias", "Outer", ("alias", "Inner", S("str", ("alphabet", "ab")))))), ()),
        # user-defined alias classes whose props supply the aliased type themselves
        ("ualias", "slug"), ("ualias", "point"), ("alias", "S", ("ualias", "slug")),
        ("dict", (("a", False, ("ualias", "slug")), ("b", True, ("ualias", "point"))), False),
        ("list", ("typed", ("ualias", "point")), ()), ("any", (("ualias", "slug"), NONE)),
        # braces in a str key (format-template characters), alone and as an any alternative
        braces, ("any", (braces, NONE)), ("list", ("elems", (E, braces, E)), ()),
    ] + sized_shapes()


def scale_shapes():
    """Larger than anything a unit test uses: lengths beyond the generator's defaults, a long
    pinned string, ints beyond 2**64, ten keys, seven alternatives, nesting depth 5."""
    a = S("int", ("min", 1))
    ten = ("dict", tuple(("k%d" % i, i % 3 == 2, INT if i % 2 else STR) for i in range(10)), False)
    deep5 = ("list", ("typed", ("dict", (("a", False, ("list", ("elems", (("dict", (("b", False, ("list", ("typed", a), (ln(1, 2),))),), False), E)), ())),), False)), (ln(1),))
    return [
        S("str", ln(60)), S("str", ("alphabet", "ab"), ln(40, 45)), S("str", call("x" * 70)),
        S("str", ("contains", "needle"), ln(50, E)), S("str", ("regex", "[ab]{40}")),
        S("int", ("min", 2 ** 64), ("max", 2 ** 64 + 3)), S("int", call(2 ** 70)), S("int", ("max", -2 ** 64)),
        S("float", ("min", 1e300), ("max", 1.0000001e300)), S("float", call(1e-300)),
        # a date schema pinned to a datetime (a datetime is a date); month end and leap day
        S("date", call(M.FIX_DT)), S("date", call(_dt.datetime(2024, 2, 29, 13, 30))), S("date", call(_dt.date(2024, 2, 29))),
        S("datetime", call(_dt.datetime(2023, 12, 31, 23, 59, 59, 999999))),
        # pins on an inexact decimal tie of their precision (round(x, p) and round(x * 10**p) part ways)
        S("float", call(0.15), ("precision", 1)), S("float", call(0.35), ("precision", 1)), S("float", call(0.05), ("precision", 1)),
        S("float", call(1.115), ("precision", 2)), S("float", call(2.675), ("precision", 2)),
        # bounds in the subnormal range
        S("float", ("min", 5e-324), ("max", 5e-324)), S("float", ("min", 5e-324), ("max", 1.5e-323)),
        S("float", ("min", -1e-310), ("max", 1e-310)), S("float", call(-0.0)), S("float", call(5e-324)),
        # declarations that must be REFUSED (a bound between the pin and the edge of its rounding
        # cell): were one to build, the result is judged like any other schema
        S("float", call(3.146), ("precision", 2), ("min", 3.15)), S("float", call(1.26), ("precision", 1), ("min", 1.28)),
        S("float", call(3.154), ("precision", 2), ("max", 3.15)), S("float", ("precision", 1), call(0.34), ("max", 0.3)),
        # must be REFUSED: a float schema pinned to an int beyond the float range; a non-schema as a
        # later operand of | / member of any
        S("float", call(10 ** 309)), S("float", call(10 ** 309), ("precision", 2)), S("float", ("min", 10 ** 400)),
        ("or", ("or", INT, STR), ("raw", None)), ("or", ("any", (INT, STR)), ("raw", 5)), ("any", (INT, STR, ("raw", None))),
        # a parametrised user type whose printed form hides its parameter, alone, as two
        # differently parametrised alternatives of one union, next to its own narrowing subclass
        ("mult", 3), ("nmult", 3), ("or", ("mult", 3), ("mult", 5)), ("any", (("mult", 3), ("mult", 5), NONE)),
        ("or", ("mult", 3), ("nmult", 3)), ("or", ("nmult", 3), ("mult", 3)), ("any", (NONE, ("or", ("mult", 3), ("mult", 5)))),
        ("list", ("typed", ("or", ("mult", 3), ("mult", 5))), ()), ("dict", (("a", False, ("mult", 3)), ("b", True, ("mult", 5))), False),
        # unions built from smaller unions whose alternatives overlap across nesting levels
        ("any", (("any", (INT, STR)), INT)), ("or", ("or", INT, STR), INT), ("any", (("any", (INT, STR)), ("any", (STR, NONE)))),
        ("or", ("or", INT, NONE), ("or", NONE, STR)),
        # the largest declarable precision, free and pinned; a pinned value that overflows once scaled
        S("float", ("precision", 15)), S("float", ("min", 0.0), ("max", 1.0), ("precision", 15)),
        S("float", call(1e300), ("precision", 15)), S("float", call(-1.5e306), ("precision", 3)),
        ("subst", S("float", ("precision", 3)), 1.5e306),
        # alphabets whose letters are metacharacters inside a regex character class
        S("str", ("alphabet", "a-c"), ln(1, 3)), S("str", ("alphabet", "^ab"), ln(2)), S("str", ("alphabet", "ab]"), ln(2)),
        S("str", ("alphabet", "a\\b"), ln(1, 2)), S("str", ("alphabet", "0-9_-"), ("contains", "-")),
        S("str", ("alphabet", "[a]"), ln(3)),
        # substitutions that must not succeed (a marker inside the value of a typed list): were one
        # to build, the result is judged like any other schema
        ("subst", ("list", ("typed", INT), ()), [1, E, 3]), ("subst", ("list", ("typed", INT), ()), [E, 1, E, 2]),
        ("subst", ("dict", (("a", False, ("list", ("typed", STR), ())),), False), {"a": ["x", E, "y"]}),
        # negated classes with a range / literal BEFORE a category
        S("str", ("regex", "[^a-c\\d]x")), S("str", ("regex", "^[^_\\d]{2}$")), S("str", ("regex", "[^A-Z\\w]")),
        # an accept-anything element next to the open end of a list that must be padded
        ("list", ("elems", (("any", None), INT, E)), (ln(5),)), ("list", ("elems", (E, ("any", None), INT)), (ln(4),)),
        ("list", ("elems", (("any", None), E)), (ln(3),)), ("list", ("elems", (E, INT, ("any", None), E)), (ln(4),)),
        ("list", ("typed", INT), (ln(25),)), ("list", ("typed", S("bool")), (ln(40, E),)),
        ("list", ("elems", tuple([a] * 6 + [E])), (ln(12),)), ("list", ("elems", tuple([E] + [STR] * 5)), ()),
        # member counts around the multiples of 5 (wrapping, chunking, slicing by fives or tens)
        *[("any", tuple(S("int", call(i)) for i in range(n))) for n in (5, 6, 10, 11, 16)],
        *[("list", ("elems", tuple(S("int", call(i)) for i in range(n))), ()) for n in (5, 6, 11)],
        *[("dict", tuple(("k%02d" % i, i % 4 == 3, S("int", call(i))) for i in range(n)), n == 6) for n in (5, 6, 11)],
        ten, ("mkreq", ten, None), ("add", ten, ("dict", (("k3", True, a), ("new", False, a)), True)),
        ("any", (a, STR, NONE, S("bool"), S("bytes"), S("float"), ("list", ("typed", a), ()))),
        deep5,
    ]


def sized_shapes():
    """Bigger and deeper than the toy shapes: three concrete elements in each list form (so that
    first, middle and last differ), four keys, three and four alternatives, nesting depth 3-4, a
    later sibling after an optional / failing / `...` one."""
    a, b, c = S("int", ("min", 1)), S("str", call("ab")), NONE
    four = ("dict", (("a", False, INT), ("b", True, STR), ("c", False, NONE), ("d", True, a)), False)
    deep = ("dict", (("a", False, ("list", ("elems", (("dict", (("b", False, ("list", ("typed", a), ())),
                                                                 ("c", True, b)), False), E)), ())),
                     ("z", True, INT)), False)
    return scale_shapes() + [
        # `...: ...` declared first / in the middle of the key table (as `relaxed + other` leaves it)
        ("dict", four[1], "first"), ("dict", four[1], "mid"),
        ("dict", (("a", False, INT), ("b", True, STR)), "first"),
        ("list", ("typed", ("dict", (("a", False, a), ("b", False, b)), "mid")), ()),
        ("add", ("dict", (("a", False, INT),), True), ("dict", (("b", False, a), ("c", True, b)), True)),
        # fully fixed element lists under every length form that admits them
        ("list", ("elems", (INT, STR)), (ln(1, E),)), ("list", ("elems", (INT, STR)), (ln(E, 4),)),
        ("list", ("elems", (INT, STR)), (ln(2),)), ("list", ("elems", (a, b, c)), (ln(2, 5),)),
        ("list", ("elems", (a, b, c)), (ln(3, E),)), ("list", ("typed", INT), (ln(1, 4),)),
        ("dict", (("k", False, ("list", ("elems", (INT, STR)), (ln(1, E),))),), False),
        ("list", ("elems", (a, b, c)), ()), ("list", ("elems", (a, b, c, E)), ()),
        ("list", ("elems", (E, a, b, c)), ()), ("list", ("elems", (E, a, b, c, E)), ()),
        ("list", ("elems", (a, a, b)), ()), ("list", ("elems", (E, a, a, b, E)), ()),
        ("list", ("elems", (E, b, a, a)), (ln(4, 6),)), ("list", ("elems", (a, b, c, E)), (ln(E, 4),)),
        ("list", ("typed", ("list", ("typed", ("list", ("typed", a), ())), ())), ()),
        four, ("dict", four[1], True), ("add", four, ("dict", (("b", False, a), ("e", True, b)), True)),
        ("mkreq", four, ("b",)), ("mkreq", four, None),
        ("any", (a, b, c)), ("any", (a, b, c, S("bool"))), ("or", ("or", a, b), ("or", c, S("bool"))),
        ("any", (("list", ("typed", a), ()), ("dict", (("a", False, a),), False), b)),
        ("list", ("typed", ("any", (("alias", "A", a), b, c))), (ln(1, 3),)),
        deep, ("list", ("typed", deep), ()), ("alias", "D", deep), ("any", (deep, c)),
    ]


def derived(K4):
    d1 = ("dict", (("a", False, K4[0]), ("b", True, K4[2])), False)
    d2 = ("dict", (("b", False, K4[0]), ("c", True, K4[2])), False)
    d3 = ("dict", (("c", False, NONE),), True)
    return [
        ("add", d1, d2), ("add", d2, d1), ("add", d1, d3), ("add", d3, d1),
        ("or", K4[0], K4[2]), ("or", ("or", K4[0], K4[2]), NONE), ("or", K4[1], ("any", (K4[2], NONE))),
        # the bare schema.any as an operand of | (it accepts everything, so does the union)
        ("or", ("any", None), K4[0]), ("or", K4[0], ("any", None)), ("or", ("or", ("any", None), K4[0]), NONE),
        # a declared union and the bare schema.any, either way round (both operands are AnySchema)
        ("or", ("or", K4[0], K4[2]), ("any", None)), ("or", ("any", None), ("or", K4[0], K4[2])),
        ("or", ("any", (K4[0], NONE)), ("any", None)), ("any", (("any", (K4[0], K4[2])), ("any", None))),
        # a union on the right-hand side too (both operands already declared unions)
        ("or", ("or", K4[0], K4[2]), ("or", NONE, BOOL)), ("or", ("any", (K4[0], K4[2])), ("any", (NONE,))),
        ("or", ("or", K4[0], K4[2]), ("any", (("any", (NONE, BOOL)), S("bytes")))),
        ("mkreq", d1, None), ("mkreq", d1, ("b",)), ("mkreq", ("add", d1, d2), ("c",)),
        ("native", None), ("native", 7), ("native", 1.5), ("native", "ab"), ("native", [1, "ab"]),
        ("native", {"a": 1, "b": [True, None]}), ("native", b"ab"), ("native", M.FIX_UUID),
        ("native", []), ("native", {}),
    ]


def e1_scalar_terms():
    """Every state of the E1 declaration graphs of int/float/str (chains <= 3) as a term."""
    from . import e1
    out = []
    for kind in ("int", "float", "str"):
        seen, _ = e1.bfs(kind, "thorough", 3)
        for _, (_, chain) in seen.items():
            calls = []
            for m, a in chain:
                if m == "__call__":
                    calls.append(("call", a[0]))
                elif m == "len":
                    calls.append(("len",) + tuple(a))
                else:
                    calls.append((m, a[0]))
            out.append((kind, tuple(calls)))
    return out


_CACHE = {}


def universe(tier, derived_terms=True):
    key = (tier, derived_terms)
    if key in _CACHE:
        return _CACHE[key]
    K = children(tier)
    K4 = K[:4]
    U = list(scalars(tier))
    L1 = containers_over(K, K4, tier)
    U += L1
    U += special_shapes(tier)
    R1 = reps_l1(K4, tier)
    L2 = []
    for c in R1:
        L2 += wrap(c)
    U += L2
    if tier == "thorough":
        # L3: wrap every third L2 term again (every wrapper shape around every L2 shape)
        for c in L2[::3]:
            U += wrap(c)
        U += e1_scalar_terms()
    if derived_terms:
        U += derived(K4)
    seen, out = set(), []
    for t in U:
        r = repr(t)
        if r not in seen:
            seen.add(r)
            out.append(t)
    _CACHE[key] = out
    return out
