"""A user-defined CustomSchema that forwards all four hooks to an inner built-in schema (C16)."""
from typing import Any

from niltype import Nil

from d42.custom_type import CustomSchema, Props, register_type


class FwdProps(Props):
    @property
    def inner(self) -> Any:
        return self.get("inner")


class Fwd(CustomSchema[FwdProps]):
    def __call__(self, inner: Any) -> "Fwd":
        return self.__class__(self.props.update(inner=inner))

    def __represent__(self, visitor: Any, *, indent: int = 0, **kwargs: Any) -> str:
        return self.props.inner.__accept__(visitor, indent=indent, **kwargs)

    def __generate__(self, visitor: Any, **kwargs: Any) -> Any:
        return self.props.inner.__accept__(visitor, **kwargs)

    def __validate__(self, visitor: Any, *, value: Any = Nil, path: Any = Nil, **kwargs: Any) -> Any:
        return self.props.inner.__accept__(visitor, value=value, path=path, **kwargs)

    def __substitute__(self, visitor: Any, *, value: Any = Nil, **kwargs: Any) -> Any:
        inner = self.props.inner.__accept__(visitor, value=value, **kwargs)
        return self.__class__(self.props.update(inner=inner))


class FwdKw(CustomSchema[FwdProps]):
    """The same forwarder written the other common way: hooks that take only **kwargs and pass
    them through untouched (no named indent / value / path parameters)."""

    def __call__(self, inner: Any) -> "FwdKw":
        return self.__class__(self.props.update(inner=inner))

    def __represent__(self, visitor: Any, **kwargs: Any) -> str:
        return self.props.inner.__accept__(visitor, **kwargs)

    def __generate__(self, visitor: Any, **kwargs: Any) -> Any:
        return self.props.inner.__accept__(visitor, **kwargs)

    def __validate__(self, visitor: Any, **kwargs: Any) -> Any:
        return self.props.inner.__accept__(visitor, **kwargs)

    def __substitute__(self, visitor: Any, **kwargs: Any) -> Any:
        inner = self.props.inner.__accept__(visitor, **kwargs)
        return self.__class__(self.props.update(inner=inner))


class FwdAttr(CustomSchema[Props]):
    """A third common way: the target is kept as a plain attribute of the instance, not in
    props - two instances forwarding to different targets then have equal (empty) props."""

    inner: Any = None

    def __represent__(self, visitor: Any, *, indent: int = 0, **kwargs: Any) -> str:
        return self.inner.__accept__(visitor, indent=indent, **kwargs)

    def __generate__(self, visitor: Any, **kwargs: Any) -> Any:
        return self.inner.__accept__(visitor, **kwargs)

    def __validate__(self, visitor: Any, *, value: Any = Nil, path: Any = Nil, **kwargs: Any) -> Any:
        return self.inner.__accept__(visitor, value=value, path=path, **kwargs)

    def __substitute__(self, visitor: Any, *, value: Any = Nil, **kwargs: Any) -> Any:
        out = self.__class__(self.props)
        out.inner = self.inner.__accept__(visitor, value=value, **kwargs)
        return out


class FwdSet(Fwd):
    """A fourth way: the target is written with Props.set(name, value) - the single-name public
    setter - both when declared and when re-set to the substituted target."""

    def __call__(self, inner: Any) -> "FwdSet":
        return self.__class__(self.props.set("inner", inner))

    def __substitute__(self, visitor: Any, *, value: Any = Nil, **kwargs: Any) -> Any:
        inner = self.props.inner.__accept__(visitor, value=value, **kwargs)
        return self.__class__(self.props.set("inner", inner))


class Int(Fwd):
    """The same forwarder under a class name that reads like a built-in's (a user's `Int`, `Date`,
    `Str` wrapper): how a type is dispatched may not depend on what its class is called."""


class _FwdDraft(Fwd):
    """First version of a type, registered and then REPLACED by registering the revised class
    under the same name: validates nothing, generates None."""

    def __validate__(self, visitor: Any, *, value: Any = Nil, path: Any = Nil, **kwargs: Any) -> Any:
        return visitor.make_validation_result()

    def __generate__(self, visitor: Any, **kwargs: Any) -> Any:
        return None


class FwdRevised(Fwd):
    pass


class FwdLate(CustomSchema[FwdProps]):
    """A forwarder whose hooks are attached AFTER the class statement (a class decorator, or the
    library's own Cls.__override__): only __call__ is written in the body."""

    def __call__(self, inner: Any) -> "FwdLate":
        return self.__class__(self.props.update(inner=inner))


for _name in ("__represent__", "__generate__", "__validate__", "__substitute__"):
    setattr(FwdLate, _name, Fwd.__dict__[_name])


_registered = register_type("mc_fwd", Fwd)
register_type("mc_fwdlate", FwdLate)
register_type("mc_fwdnamed", Int)
register_type("mc_fwdrev", _FwdDraft)
register_type("mc_fwdrev", FwdRevised)       # the later registration wins
register_type("mc_fwdset", FwdSet)
register_type("mc_fwdkw", FwdKw)
register_type("mc_fwdattr", FwdAttr)


def wrap(inner, flavour=None):
    from d42 import schema
    if flavour == "attr":
        out = schema.mc_fwdattr
        out.inner = inner
        return out
    if flavour == "set":
        return schema.mc_fwdset(inner)
    if flavour == "late":
        return schema.mc_fwdlate(inner)
    if flavour == "named":
        return schema.mc_fwdnamed(inner)
    if flavour == "rereg":
        return schema.mc_fwdrev(inner)
    return schema.mc_fwdkw(inner) if flavour == "kw" else schema.mc_fwd(inner)


# Two more user-defined types, declared the documented way with the *plain* Props class: they
# share one Props class, differ only in their Python class (C15: equality must tell them apart).
class NumLike(CustomSchema[Props]):
    def __represent__(self, visitor: Any, *, indent: int = 0, **kwargs: Any) -> str:
        return "schema.mc_num"

    def __generate__(self, visitor: Any, **kwargs: Any) -> Any:
        return 1

    def __validate__(self, visitor: Any, *, value: Any = Nil, path: Any = Nil, **kwargs: Any) -> Any:
        from d42 import schema
        return schema.int.__accept__(visitor, value=value, path=path, **kwargs)

    def __substitute__(self, visitor: Any, *, value: Any = Nil, **kwargs: Any) -> Any:
        return self


class TextLike(CustomSchema[Props]):
    def __represent__(self, visitor: Any, *, indent: int = 0, **kwargs: Any) -> str:
        return "schema.mc_text"

    def __generate__(self, visitor: Any, **kwargs: Any) -> Any:
        return "a"

    def __validate__(self, visitor: Any, *, value: Any = Nil, path: Any = Nil, **kwargs: Any) -> Any:
        from d42 import schema
        return schema.str.__accept__(visitor, value=value, path=path, **kwargs)

    def __substitute__(self, visitor: Any, *, value: Any = Nil, **kwargs: Any) -> Any:
        return self


register_type("mc_num", NumLike)
register_type("mc_text", TextLike)


# A user subclass of a built-in type (no overrides): == / != must stay coherent for it (C15).
from d42.declaration.types import IntSchema  # noqa: E402


class PortSchema(IntSchema):
    pass


# A user subclass of StrSchema that tightens one refinement (lengths above 2 are refused):
# refinements applied in any order must keep going through it (C11).
from d42.declaration import DeclarationError  # noqa: E402
from d42.declaration.types import StrSchema  # noqa: E402


class CappedStr(StrSchema):
    def len(self, *args: Any) -> "CappedStr":
        if any(isinstance(x, int) and not isinstance(x, bool) and x > 2 for x in args):
            raise DeclarationError("CappedStr: lengths above 2 are not allowed")
        return super().len(*args)


# User-defined type aliases whose Props supply the aliased type themselves (a documented
# extension route): every visitor must read the type through the `type` property.
from d42.declaration.types import GenericTypeAliasSchema, TypeAliasProps  # noqa: E402


class SlugProps(TypeAliasProps):
    @property
    def type(self) -> Any:
        from d42 import schema
        return self.get("type", schema.str.alphabet("ab").len(1, 2))


class SlugSchema(GenericTypeAliasSchema[SlugProps]):
    pass


class PointProps(TypeAliasProps):
    @property
    def type(self) -> Any:
        from d42 import optional, schema
        return self.get("type", schema.dict({"a": schema.int.min(0).max(7), optional("b"): schema.str("ab")}))


class PointSchema(GenericTypeAliasSchema[PointProps]):
    pass


# A user-defined type that interprets a validation OPTION (an extra keyword argument of
# validate(), which every visitor method hands down to nested schemas): an int; with
# mc_strict=True bools are refused.
class StrictInt(CustomSchema[Props]):
    def __represent__(self, visitor: Any, *, indent: int = 0, **kwargs: Any) -> str:
        return "schema.mc_strictint"

    def __generate__(self, visitor: Any, **kwargs: Any) -> Any:
        return 1

    def __validate__(self, visitor: Any, *, value: Any = Nil, path: Any = Nil,
                     mc_strict: bool = False, **kwargs: Any) -> Any:
        from d42.validation.errors import TypeValidationError
        result = visitor.make_validation_result()
        if path is Nil:
            path = visitor.make_path()
        if not isinstance(value, int) or (mc_strict and isinstance(value, bool)):
            result.add_error(TypeValidationError(path, value, int))
        return result

    def __substitute__(self, visitor: Any, *, value: Any = Nil, **kwargs: Any) -> Any:
        return self


register_type("mc_strictint", StrictInt)


# A PARAMETRISED user-defined type whose printed form does not show its parameter (it defines
# no __represent__, so the library prints "<MultipleOf>"): ints divisible by props.n.  And a
# subclass of it with the same props and ANOTHER meaning (ints that are not divisible by n).
class MultProps(Props):
    @property
    def n(self) -> Any:
        return self.get("n", 1)


class MultipleOf(CustomSchema[MultProps]):
    def __call__(self, n: int) -> "MultipleOf":
        return self.__class__(self.props.update(n=n))

    def _ok(self, value: Any) -> bool:
        return value % self.props.n == 0

    def __generate__(self, visitor: Any, **kwargs: Any) -> Any:
        return self.props.n * 2 if self._ok(self.props.n * 2) else self.props.n * 2 + 1

    def __validate__(self, visitor: Any, *, value: Any = Nil, path: Any = Nil, **kwargs: Any) -> Any:
        from d42.validation.errors import TypeValidationError, ValueValidationError
        result = visitor.make_validation_result()
        if path is Nil:
            path = visitor.make_path()
        if not isinstance(value, int):
            result.add_error(TypeValidationError(path, value, int))
        elif not self._ok(value):
            result.add_error(ValueValidationError(path, value, self.__generate__(visitor)))
        return result

    def __substitute__(self, visitor: Any, *, value: Any = Nil, **kwargs: Any) -> Any:
        return self


class NonMultipleOf(MultipleOf):
    def _ok(self, value: Any) -> bool:
        return value % self.props.n != 0


register_type("mc_mult", MultipleOf)
register_type("mc_nmult", NonMultipleOf)


# A user-defined type with a `value` prop whose validation is NOT plain equality with that
# value: a token compared case-insensitively (C15: schema == value means "the value validates",
# whatever the type's props are called).
class Token(CustomSchema[Props]):
    def __call__(self, value: str) -> "Token":
        return self.__class__(self.props.update(value=value))

    def __represent__(self, visitor: Any, *, indent: int = 0, **kwargs: Any) -> str:
        return f"schema.mc_token({self.props.get('value')!r})"

    def __generate__(self, visitor: Any, **kwargs: Any) -> Any:
        return self.props.get("value", "t")

    def __validate__(self, visitor: Any, *, value: Any = Nil, path: Any = Nil, **kwargs: Any) -> Any:
        from d42.validation.errors import TypeValidationError, ValueValidationError
        result = visitor.make_validation_result()
        if path is Nil:
            path = visitor.make_path()
        want = self.props.get("value")
        if not isinstance(value, str):
            result.add_error(TypeValidationError(path, value, str))
        elif want is not Nil and value.lower() != want.lower():
            result.add_error(ValueValidationError(path, value, want))
        return result

    def __substitute__(self, visitor: Any, *, value: Any = Nil, **kwargs: Any) -> Any:
        return self


register_type("mc_token", Token)
